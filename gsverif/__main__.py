"""python -m gsverif <Cxx> [--tier quick|thorough] | replay <file> | all"""
import argparse
import importlib
import json
import os
import sys
import time
import traceback

from . import core


def load_prop(pid):
    return importlib.import_module(f"gsverif.props.{pid}")


def run_check(pid, tier, seed):
    mod = load_prop(pid)
    chk = core.Check(pid, tier, seed, level=getattr(mod, "LEVEL", "exploration"))
    try:
        mod.run(chk)
        return chk.finish()
    except core.Vacuous as e:
        print(f"UNDECIDED {pid}: {e}")
        chk.write_evidence(0, note=f"undecided: {e}")
        return 2
    except Exception:
        traceback.print_exc()
        print(f"UNDECIDED {pid}: harness error")
        try:
            chk.write_evidence(0, note="harness error")
        except Exception:
            pass
        return 2


def replay(path):
    with open(path) as fh:
        body = json.load(fh)
    pid, group, case = body["property"], body["group"], body["case"]
    mod = load_prop(pid)
    fn = mod.GROUPS[group]
    case = core.unjson_float(case) if getattr(mod, "UNJSON", True) else case
    res = fn(case)
    print(f"replay {pid}.{group} case={core.short(case, 600)}")
    if res.get("skip"):
        print(f"  skipped by guard: {res['skip']}")
    for f in res["fails"]:
        print(f"  FAIL {f['what']}: observed={f['observed']} expected={f['expected']} ({f['tol']})")
    if not res["fails"]:
        print(f"  all {res['evals']} comparisons hold")
        return 0
    print(f"VIOLATION property={pid} replay={path}")
    return 1


def main(argv=None):
    ap = argparse.ArgumentParser(prog="check")
    ap.add_argument("what")
    ap.add_argument("path", nargs="?")
    ap.add_argument("--tier", default=os.environ.get("VERIF_TIER", "quick"), choices=["quick", "thorough"])
    ap.add_argument("--seed", type=int, default=int(os.environ.get("VERIF_SEED", "0") or 0))
    a = ap.parse_args(argv)
    if a.what == "replay":
        return replay(a.path)
    if a.what == "all":
        with open(os.path.join(core.ROOT, "MANIFEST.json")) as fh:
            man = json.load(fh)
        rc = 0
        for c in man["checks"]:
            r = run_check(c["property_id"], a.tier, a.seed)
            rc = max(rc, r)
        return rc
    return run_check(a.what, a.tier, a.seed)


if __name__ == "__main__":
    sys.exit(main())
