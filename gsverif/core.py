"""Common machinery: case enumeration engine, result accumulation, evidence, findings.

A *case* is a JSON-serialisable dict.  A *case function* takes a case and
returns ``R(...).done()``: a dict with the failures found on that case, the
number of comparisons made, an outcome fingerprint and an optional skip reason.
The engine executes the complete list of cases (in a fixed order, fanned out to
a process pool) -- nothing is sampled.  Every failure is identified by a
*descriptor* (check name + failure name + the case's fields); descriptors are
matched against /verif/known_findings.json, everything unmatched becomes a
replay file and a VIOLATION line.
"""
import hashlib
import itertools
import json
import math
import multiprocessing as mp
import os
import sys
import time
import traceback

import numpy as np

ROOT = os.path.dirname(os.path.dirname(os.path.abspath(__file__)))
NPROC = int(os.environ.get("GSVERIF_NPROC", "16"))


def jsonable(x):
    """Convert numpy / tuples / floats to plain JSON types (inf/nan as strings)."""
    if isinstance(x, dict):
        return {str(k): jsonable(v) for k, v in x.items()}
    if isinstance(x, (list, tuple)):
        return [jsonable(v) for v in x]
    if isinstance(x, np.ndarray):
        return jsonable(x.tolist())
    if isinstance(x, (np.bool_, bool)):
        return bool(x)
    if isinstance(x, (np.integer,)):
        return int(x)
    if isinstance(x, (np.floating, float)):
        x = float(x)
        if math.isnan(x):
            return "nan"
        if math.isinf(x):
            return "inf" if x > 0 else "-inf"
        return x
    if isinstance(x, complex):
        return [x.real, x.imag]
    if x is None or isinstance(x, (int, str)):
        return x
    return repr(x)


def unjson_float(x):
    """Inverse of jsonable for floats (used by case functions on replay)."""
    if isinstance(x, str):
        return {"nan": math.nan, "inf": math.inf, "-inf": -math.inf}.get(x, x)
    if isinstance(x, list):
        return [unjson_float(v) for v in x]
    if isinstance(x, dict):
        return {k: unjson_float(v) for k, v in x.items()}
    return x


def short(x, n=400):
    s = json.dumps(jsonable(x)) if not isinstance(x, str) else x
    return s if len(s) <= n else s[: n - 3] + "..."


class R:
    """Per-case result accumulator used inside case functions."""

    def __init__(self):
        self.fails = []
        self.evals = 0
        self.skip = None
        self.notes = {}

    # -- comparisons ------------------------------------------------------
    def close(self, what, obs, exp, rtol=1e-10, atol=0.0, **extra):
        """obs == exp within rtol*|exp| + atol, elementwise; NaN matches NaN."""
        self.evals += 1
        try:
            o = np.asarray(obs, dtype=float)
            e = np.asarray(exp, dtype=float)
            if o.shape != e.shape:
                try:
                    o, e = np.broadcast_arrays(o, e)
                except ValueError:
                    self._fail(what, obs, exp, f"shape {o.shape} vs {e.shape}", extra)
                    return False
            with np.errstate(all="ignore"):
                bad = ~(np.abs(o - e) <= rtol * np.abs(e) + atol)
                bad &= ~(np.isnan(o) & np.isnan(e))
                bad &= ~((o == e))  # equal infinities
            if bad.any():
                idx = np.argwhere(bad)[0]
                with np.errstate(all="ignore"):
                    dev = float(np.nanmax(np.abs(o - e)[bad])) if np.isfinite(np.abs(o - e)[bad]).any() else math.inf
                self._fail(
                    what,
                    o[tuple(idx)] if o.ndim else o,
                    e[tuple(idx)] if e.ndim else e,
                    f"rtol={rtol:g} atol={atol:g} maxdev={dev:.3g} nbad={int(bad.sum())}/{bad.size} first_idx={idx.tolist()}",
                    extra,
                )
                return False
            return True
        except Exception as exc:  # comparison impossible -> a failure, loudly
            self._fail(what, repr(obs)[:200], repr(exp)[:200], f"compare error {exc!r}", extra)
            return False

    def eq(self, what, obs, exp, **extra):
        """exact equality (arrays: same shape and all elements equal, NaN==NaN)."""
        self.evals += 1
        try:
            o = np.asarray(obs)
            e = np.asarray(exp)
            ok = o.shape == e.shape and bool(
                np.all((o == e) | ((o != o) & (e != e))) if o.dtype.kind in "fc" and e.dtype.kind in "fc" else np.all(o == e)
            )
        except Exception:
            ok = obs == exp
        if not ok:
            self._fail(what, obs, exp, "exact", extra)
        return ok

    def true(self, what, cond, info=None, **extra):
        self.evals += 1
        if not cond:
            self._fail(what, info, True, "predicate", extra)
        return bool(cond)

    def raises(self, what, fn, exc=Exception, **extra):
        self.evals += 1
        try:
            fn()
        except exc:
            return True
        except Exception as e:  # other exception type
            self._fail(what, f"raised {type(e).__name__}: {e}", f"raise {exc}", "raises", extra)
            return False
        self._fail(what, "no exception", f"raise {exc}", "raises", extra)
        return False

    def fail(self, what, observed=None, expected=None, tol="", **extra):
        self.evals += 1
        self._fail(what, observed, expected, tol, extra)

    def _fail(self, what, obs, exp, tol, extra):
        f = {"what": what, "observed": short(obs), "expected": short(exp), "tol": str(tol)}
        if extra:
            f["extra"] = jsonable(extra)
        self.fails.append(f)

    def done(self, outcome=None, skip=None, nontrivial=True, sub=None):
        d = {
            "fails": self.fails,
            "evals": self.evals,
            "outcome": outcome,
            "skip": skip or self.skip,
            "nontrivial": nontrivial,
        }
        if sub:
            d["sub"] = sub  # dict of extra counters, summed by the engine
        if self.notes:
            d["notes"] = self.notes
        return d


# ---------------------------------------------------------------------------
# parallel execution of case lists
_WORK = {}


def _run_one(args):
    name, idx, case = args
    fn = _WORK[name]
    try:
        res = fn(case)
    except Exception as exc:
        # the harness reads a few private attributes named in the property anchors (sample arrays, kriging
        # matrix); if such a name does not exist in the tree under test the case is undecided, not a violation
        tb = traceback.extract_tb(exc.__traceback__)
        internal = isinstance(exc, AttributeError) and "'_" in str(exc) and tb and "/gsverif/" in tb[-1].filename
        res = {
            "fails": [
                {
                    "what": "harness-internal-access" if internal else "harness-exception",
                    "observed": traceback.format_exc()[-1500:],
                    "expected": "no exception",
                    "tol": "",
                }
            ],
            "evals": 1,
            "outcome": "EXC",
            "skip": None,
            "nontrivial": True,
        }
    if res.get("outcome") is not None and not isinstance(res["outcome"], (str, int)):
        res["outcome"] = hashlib.sha1(json.dumps(jsonable(res["outcome"]), sort_keys=True).encode()).hexdigest()[:12]
    return idx, res


def _run_chunk(chunk):
    return [_run_one(a) for a in chunk]


def parallel_map(name, fn, cases, nproc=None, chunk=None):
    """Execute fn on every case; returns list of result dicts in case order."""
    _WORK[name] = fn
    cases = list(cases)
    nproc = nproc or NPROC
    if len(cases) == 0:
        return cases, []
    if nproc <= 1 or len(cases) < 4:
        return cases, [_run_one((name, i, c))[1] for i, c in enumerate(cases)]
    if chunk is None:
        chunk = max(1, min(64, len(cases) // (nproc * 8)))
    jobs = [(name, i, c) for i, c in enumerate(cases)]
    chunks = [jobs[i : i + chunk] for i in range(0, len(jobs), chunk)]
    ctx = mp.get_context("fork")
    out = [None] * len(cases)
    with ctx.Pool(nproc) as pool:
        for part in pool.imap_unordered(_run_chunk, chunks):
            for idx, res in part:
                out[idx] = res
    return cases, out


class Vacuous(Exception):
    """the run could not reach a verdict (exit 2)"""


class Check:
    """One run of one property check."""

    def __init__(self, pid, tier, seed, level="exploration"):
        self.pid = pid
        self.tier = tier
        self.seed = seed
        self.level = level
        self.t0 = time.time()
        self.groups = {}  # name -> stats
        self.violations = []  # (descriptor, fail, case, group)
        self.samples = []
        self.assumptions = []
        self.rule_parts = []
        self.extra_cov = {}
        self.states = 0
        self.transitions = 0
        self.traces = 0
        self.replay_fn = {}  # group -> case function (for confirmation)

    # -- running ----------------------------------------------------------
    def run(self, group, fn, cases, rule=None, nproc=None, chunk=None, max_skip_frac=0.5, min_outcomes=2):
        """Execute the complete case list of one group."""
        t = time.time()
        cases, results = parallel_map(f"{self.pid}.{group}", fn, cases, nproc=nproc, chunk=chunk)
        self.replay_fn[group] = fn
        st = self.groups.setdefault(
            group,
            {"cases": 0, "executed": 0, "comparisons": 0, "skipped": {}, "distinct_nontrivial": 0, "distinct_outcomes": 0, "failed_cases": 0, "sub": {}},
        )
        keys = set()
        outcomes = set()
        for case, res in zip(cases, results):
            st["cases"] += 1
            if res.get("skip"):
                st["skipped"][res["skip"]] = st["skipped"].get(res["skip"], 0) + 1
                continue
            st["executed"] += 1
            st["comparisons"] += res["evals"]
            for k, v in (res.get("sub") or {}).items():
                st["sub"][k] = st["sub"].get(k, 0) + v
            if res.get("nontrivial", True):
                keys.add(json.dumps(jsonable(case), sort_keys=True))
            if res.get("outcome") is not None:
                outcomes.add(res["outcome"])
            if res["fails"]:
                st["failed_cases"] += 1
                for f in res["fails"]:
                    self.violations.append((group, case, f))
        st["distinct_nontrivial"] += len(keys)
        st["distinct_outcomes"] = max(st["distinct_outcomes"], len(outcomes))
        st["wall_s"] = round(st.get("wall_s", 0) + time.time() - t, 2)
        if rule:
            self.rule_parts.append(f"{group}: {rule}")
        if cases:
            picks = sorted({0, len(cases) // 2, len(cases) - 1})
            for i in picks[: 2 if len(self.samples) > 12 else 3]:
                if len(self.samples) < 40:
                    self.samples.append({"group": group, "case": jsonable(cases[i])})
        nskip = sum(st["skipped"].values())
        if st["cases"] and nskip / st["cases"] > max_skip_frac:
            raise Vacuous(f"{self.pid}.{group}: {nskip}/{st['cases']} cases skipped by guards {st['skipped']}")
        if st["cases"] == 0:
            raise Vacuous(f"{self.pid}.{group}: empty case list")
        if outcomes and len(outcomes) < min_outcomes and st["executed"] >= min_outcomes:
            raise Vacuous(f"{self.pid}.{group}: only {len(outcomes)} distinct outcome(s) over {st['executed']} executed cases")
        return cases, results

    def bfs(self, group, fn, cfgs, ops_fn, depth, rule=None, nproc=None, chunk=None):
        """Breadth-first search over operation histories on the real objects.

        A task is {"cfg": cfg, "hist": [op, ...]}; ``fn`` replays the whole history on a
        fresh object, checks the invariants of the *last* step (earlier steps were checked
        when their prefix was executed) and returns the canonical state key as outcome.
        A state is expanded once (first history reaching it, i.e. a shortest one); states
        reached by a failing step are reported but not expanded."""
        seen = set()
        level = [{"cfg": c, "hist": []} for c in cfgs]
        pruned = 0
        maxd = 0
        per_depth = []
        for d in range(depth + 1):
            if not level:
                break
            cases, results = self.run(group, fn, level, rule=rule if d == 0 else None, nproc=nproc, chunk=chunk, min_outcomes=1, max_skip_frac=1.0)
            nxt = []
            new_states = 0
            for case, res in zip(cases, results):
                if d > 0:
                    self.transitions += 1
                self.traces += 1
                if res.get("skip"):
                    continue
                key = (json.dumps(jsonable(case["cfg"]), sort_keys=True), res.get("outcome"))
                if res["fails"]:
                    pruned += 1
                    continue
                if key in seen:
                    continue
                seen.add(key)
                new_states += 1
                maxd = d
                if d < depth:
                    for op in ops_fn(case["cfg"]):
                        nxt.append({"cfg": case["cfg"], "hist": case["hist"] + [op]})
            per_depth.append({"depth": d, "histories": len(cases), "new_states": new_states})
            level = nxt
        self.states += len(seen)
        b = self.extra_cov.setdefault("bfs", {})
        b[group] = {"depth_bound": depth, "max_depth_with_new_states": maxd, "states": len(seen), "per_depth": per_depth, "not_expanded_after_failure": pruned}
        return seen

    def control(self, name, detected, info=""):
        """A built-in negative control: the machinery must detect a known-bad input."""
        self.extra_cov.setdefault("negative_controls", {})[name] = {"detected": bool(detected), "info": info}
        if not detected:
            raise Vacuous(f"{self.pid}: negative control '{name}' not detected ({info}) - check would be vacuous")

    def assume(self, text):
        if text not in self.assumptions:
            self.assumptions.append(text)

    # -- finishing --------------------------------------------------------
    def finish(self):
        from . import findings

        known = findings.load(self.pid)
        new = []
        matched = {}
        for group, case, f in self.violations:
            desc = findings.descriptor(group, case, f)
            k = findings.match(known, desc)
            if k is not None:
                matched.setdefault(k["id"], [k, 0])[1] += 1
            else:
                new.append((group, case, f, desc))
        # private state the harness needs is missing: undecided, never a violation
        internal = [x for x in new if x[2]["what"] == "harness-internal-access"]
        new = [x for x in new if x[2]["what"] != "harness-internal-access"]
        if internal and not new:
            print(f"UNDECIDED: {self.pid}: {len(internal)} cases could not read private state named in the property anchors, e.g. {internal[0][2]['observed'][-200:]!r}")
            self.write_evidence(0, note="undecided: private state missing")
            return 2
        # evidence first (always rewritten)
        exit_code = 0
        lines = []
        for kid, (k, n) in sorted(matched.items()):
            lines.append(f"KNOWN-FINDING: property={self.pid} {k['id']}: {k['what']} ({n} failing comparisons matched)")
        # regressions of fixed findings are ordinary violations (fixed entries never match)
        replay_paths = []
        if new:
            exit_code = 1
            seen_sig = set()
            confirmed = unstable = 0
            for group, case, f, desc in new:
                sig = findings.signature(desc)
                if sig in seen_sig:
                    continue
                seen_sig.add(sig)
                if len(replay_paths) >= 25:
                    continue
                # confirm determinism before reporting
                # (a failure that does not reproduce is never reported as a violation; the run is
                # undecided (exit 2) unless another failure is confirmed to be reproducible)
                fn = self.replay_fn.get(group)
                if fn is not None and confirmed + unstable < 8:
                    again = _run_one((f"{self.pid}.{group}", 0, case))[1]
                    whats = {x["what"] for x in again["fails"]}
                    if f["what"] not in whats:
                        print(f"NONDETERMINISTIC: {self.pid}.{group} failure '{f['what']}' did not reproduce on re-execution; case={short(case)}")
                        unstable += 1
                        continue
                    confirmed += 1
                path = self.write_replay(group, case, f)
                replay_paths.append(path)
                lines.append(f"VIOLATION property={self.pid} replay={path}")
                lines.append(f"  {group}/{f['what']}: observed={f['observed']} expected={f['expected']} ({f['tol']}) case={short(case, 300)}")
            if unstable and not confirmed:
                self.write_evidence(len(new), note="nondeterministic")
                return 2
            n_sigs = len(seen_sig)
            lines.append(f"{self.pid}: {len(new)} failing comparisons in {n_sigs} distinct signatures not listed in known_findings.json")
        self.extra_cov["known_findings_matched"] = {kid: n for kid, (k, n) in matched.items()}
        self.write_evidence(len(new))
        for ln in lines:
            print(ln)
        tot = sum(g["executed"] for g in self.groups.values())
        print(
            f"{self.pid} tier={self.tier} seed={self.seed}: {tot} cases executed in {len(self.groups)} groups, "
            f"{sum(g['comparisons'] for g in self.groups.values())} comparisons, states={self.states} transitions={self.transitions}, "
            f"{len(new)} new failing comparisons, {sum(n for _, n in matched.values())} matched known findings, {time.time()-self.t0:.1f}s -> exit {exit_code}"
        )
        return exit_code

    def write_replay(self, group, case, f):
        d = os.path.join(ROOT, "replays", self.pid)
        os.makedirs(d, exist_ok=True)
        body = {"property": self.pid, "group": group, "case": jsonable(case), "failure": f, "tier": self.tier, "seed": self.seed}
        h = hashlib.sha1(json.dumps([self.pid, group, jsonable(case), f["what"]], sort_keys=True).encode()).hexdigest()[:12]
        path = os.path.join(d, f"{h}.json")
        with open(path, "w") as fh:
            json.dump(body, fh, indent=1)
        return path

    def write_evidence(self, nviol, note=None):
        # GSVERIF_EVIDENCE_DIR: tooling only (runs against a seeded scratch checkout must not replace
        # the evidence of the real tree)
        ev_dir = os.environ.get("GSVERIF_EVIDENCE_DIR") or os.path.join(ROOT, "evidence")
        os.makedirs(ev_dir, exist_ok=True)
        groups = self.groups
        cov = {
            "evaluations": int(sum(g["executed"] for g in groups.values())),
            "distinct_nontrivial": int(sum(g["distinct_nontrivial"] for g in groups.values())),
            "rule": " | ".join(self.rule_parts)
            + " || a case is counted as distinct by its canonical JSON form and as non-trivial when its case function flags it so (not skipped by a guard, exercises the code path under test)",
            "samples": self.samples[:40],
            "exhaustive": True,
            "comparisons": int(sum(g["comparisons"] for g in groups.values())),
            "groups": groups,
        }
        if self.level == "model_checking":
            cov["states"] = int(self.states)
            cov["transitions"] = int(self.transitions)
            cov["traces_validated_against_impl"] = int(self.traces)
        cov.update(self.extra_cov)
        if note:
            cov["note"] = note
        ev = {
            "property_id": self.pid,
            "tier": self.tier,
            "seed": int(self.seed),
            "level": self.level,
            "coverage": jsonable(cov),
            "assumptions": self.assumptions,
            "wall_s": round(time.time() - self.t0, 2),
            "violations": int(nviol),
        }
        with open(os.path.join(ev_dir, f"{self.pid}.json"), "w") as fh:
            json.dump(ev, fh, indent=1)


def product_cases(**axes):
    """Full Cartesian product of named axes, first axis slowest, as dicts."""
    names = list(axes)
    for combo in itertools.product(*[axes[n] for n in names]):
        yield dict(zip(names, combo))


def generic_values(seed, n, lo, hi, tag=""):
    """Deterministic table of 'generic representative' values selected by VERIF_SEED."""
    h = int(hashlib.sha1(f"{tag}:{seed}".encode()).hexdigest()[:8], 16)
    rng = np.random.RandomState(h)
    return [float(round(v, 6)) for v in rng.uniform(lo, hi, size=n)]
