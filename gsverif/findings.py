"""known_findings.json handling.  The file is read only; never written at run time.

Entry: {"id", "property", "status": "open"|"fixed", "what", "key": {field: matcher}, "commit"?}
A matcher is a plain value (equality), {"in": [...]}, {"ge": a, "le": b},
{"re": "regex"} (on str(value)) or {"contains": x} (value is a list / str containing x).
Only ``open`` entries suppress anything; ``fixed`` entries are documentation.
The descriptor of a failure is flat: group, what, the case's top-level fields
and the failure's ``extra`` fields (prefixed names win over case fields).
"""
import json
import os
import re

from .core import ROOT, jsonable


def load(pid=None):
    path = os.path.join(ROOT, "known_findings.json")
    if not os.path.exists(path):
        return []
    with open(path) as fh:
        data = json.load(fh)
    out = [e for e in data.get("findings", []) if e.get("status") == "open"]
    if pid:
        out = [e for e in out if e["property"] == pid]
    return out


def descriptor(group, case, f):
    d = {}
    if isinstance(case, dict):
        d.update(jsonable(case))
        # one level of flattening for dict-valued fields: case["opts"]["nu"] -> "opts.nu"; cfg.* too
        for k, v in list(d.items()):
            if isinstance(v, dict):
                for kk, vv in v.items():
                    d.setdefault(f"{k}.{kk}", vv)
    d.update(f.get("extra") or {})
    d["group"] = group
    d["what"] = f["what"]
    return d


def _m(matcher, val):
    if isinstance(matcher, dict):
        if "in" in matcher:
            return val in matcher["in"]
        if "re" in matcher:
            return re.search(matcher["re"], val if isinstance(val, str) else json.dumps(val)) is not None
        if "contains" in matcher:
            try:
                return matcher["contains"] in val
            except TypeError:
                return False
        ok = True
        if "ge" in matcher:
            ok &= isinstance(val, (int, float)) and val >= matcher["ge"]
        if "le" in matcher:
            ok &= isinstance(val, (int, float)) and val <= matcher["le"]
        if "ge" in matcher or "le" in matcher:
            return ok
        return val == matcher
    return val == matcher


def match(known, desc):
    for k in known:
        key = k["key"]
        if all((name in desc) and _m(m, desc[name]) for name, m in key.items()):
            return k
    return None


def signature(desc):
    """Coarse signature used only to avoid printing thousands of replay files."""
    keep = {k: v for k, v in desc.items() if k in ("group", "what", "cls", "model", "dim", "variant", "kernel", "entry", "op", "norm", "fn")}
    return json.dumps(keep, sort_keys=True)
