"""History exploration of SRF + generator objects (shared by C11 and C17).

State space: an SRF with a RandMeth / IncomprRandMeth / Fourier generator is driven through
sequences of calls, re-seedings (identical or equal-but-distinct seed objects), in-place
model edits and restorations, model re-assignment and generator setting changes.  After
every generating call the result must equal what a *freshly constructed* SRF with the
current settings returns (nugget-free models), and the same history executed with
identical vs. equal-but-distinct seed objects must give identical output (all models).
For the Fourier generator the field must additionally be periodic for the *current*
settings (C17).
"""
import copy
import json
import warnings

import numpy as np

import gstools as gs

from .core import R

warnings.simplefilter("ignore")

SEEDS = {"S1": 20231101, "S2": 777777}
_SHARED = {k: int(v) for k, v in SEEDS.items()}  # one object per value ("identical" class)


def seed_obj(name, twin):
    if name is None:
        return np.nan
    if twin == "same":
        return _SHARED[name]
    return int(str(SEEDS[name]))  # a new int object with the same value


BASE_ANIS = {1: [], 2: [0.5], 3: [0.5, 0.75]}
BASE_ANGLES = {1: [], 2: [0.4], 3: [0.4, -0.3, 0.2]}


def init_ref(cfg):
    d = cfg["dim"]
    ref = {
        "cls": cfg["cls"],
        "dim": d,
        "var": 1.3,
        "len_scale": 2.0,
        "anis": list(BASE_ANIS[d]),
        "angles": list(BASE_ANGLES[d]) if cfg.get("rotate", True) else [0.0] * len(BASE_ANGLES[d]),
        "nugget": cfg.get("nugget", 0.0),
        "opt": dict(cfg.get("opt", {})),
        "mode_no": cfg.get("mode_no", 8 if cfg["gen"] == "Fourier" else 12),
        "seed": "S1",
        "period": cfg.get("period", [10.0, 7.5, 5.0][:d]) if cfg["gen"] == "Fourier" else None,
        "mean_velocity": 1.0,
        "synced": True,
        "reused": False,
        "lastpos": None,
        "ncalls": 0,
    }
    if cfg["gen"] == "IncomprRandMeth":
        ref["anis"] = [1.0] * (d - 1)
        ref["angles"] = [0.0] * len(BASE_ANGLES[d])
    return ref


def make_model(ref):
    C = getattr(gs, ref["cls"])
    kw = dict(dim=ref["dim"], var=ref["var"], len_scale=ref["len_scale"], nugget=ref["nugget"])
    if ref["anis"]:
        kw["anis"] = list(ref["anis"])
    if ref["angles"]:
        kw["angles"] = list(ref["angles"])
    kw.update(ref["opt"])
    return C(**kw)


def make_srf(cfg, ref, twin):
    m = make_model(ref)
    seed = seed_obj(ref["seed"], twin)
    if cfg["gen"] == "Fourier":
        # settings are handed over as float64 arrays owned by the caller (kept, so that the caller can reuse them)
        pa = np.array(ref["period"], dtype=np.double)
        srf = gs.SRF(m, generator="Fourier", period=pa, mode_no=ref["mode_no"], seed=seed)
        srf.__dict__["_caller_arrays"] = [pa]
        return srf
    if cfg["gen"] == "IncomprRandMeth":
        return gs.SRF(m, generator="IncomprRandMeth", mode_no=ref["mode_no"], seed=seed, mean_velocity=ref["mean_velocity"])
    return gs.SRF(m, generator="RandMeth", mode_no=ref["mode_no"], seed=seed, sampling=cfg.get("sampling", "auto"))


def positions(cfg, name):
    d = cfg["dim"]
    P = np.array([[0.3, 1.7, 4.1, 6.6], [0.9, 2.2, 0.4, 5.3], [1.1, 0.2, 3.3, 2.4]])[:d]
    Q = np.array([[5.5, 2.5, 8.25], [1.5, 6.0, 3.75], [0.5, 2.0, 4.5]])[:d]
    G = [np.array([0.0, 1.5, 3.0]), np.array([0.5, 2.5]), np.array([1.0, 2.0])][:d]
    # P2: differs from P by less than numpy.allclose's default tolerance (the library compares
    # positions with allclose to decide whether stored fields survive) but is a different request
    return {"P": P, "Q": Q, "G": G, "P2": P + 2e-6}[name]


def apply_op(srf, ref, op, cfg, twin):
    """apply one operation to the real object and to the reference; returns output or None"""
    k = op["k"]
    if k == "call":
        if op["pos"] is None:  # on the positions kept from the last request
            if ref.get("lastpos") is None:
                return "SKIP"
            op = dict(op, pos=ref["lastpos"], kept=True)
        pos = positions(cfg, op["pos"])
        ref["lastpos"] = op["pos"]
        kw = {}
        if op.get("seed") is not None:
            kw["seed"] = seed_obj(op["seed"], twin)
            ref["seed"] = op["seed"]
        if op.get("kept"):
            out = srf(**kw)
        elif op["pos"] == "G":
            out = srf.structured(pos, **kw)
        else:
            out = srf(pos, **kw)
        ref["synced"] = True
        if ref["nugget"] > 0:
            ref["ncalls"] += 1  # position of the nugget noise stream (hidden state the property is about)
        return np.array(out, dtype=float)
    ref["synced"] = False
    if k == "model":
        setattr(srf.model, op["attr"], op["v"])
        v = op["v"]
        if op["attr"] in ("anis", "angles"):
            n = len(ref[op["attr"]])
            v = list(np.atleast_1d(v))[:n]
            v = ([1.0] * (n - len(v)) + v) if op["attr"] == "anis" else (v + [0.0] * (n - len(v)))
        ref[op["attr"]] = v
    elif k == "opt":
        setattr(srf.model, op["name"], op["v"])
        ref["opt"][op["name"]] = op["v"]
    elif k == "assign_model":
        if op["which"] == "other":
            ref["len_scale"] = op["len_scale"]
        srf.model = make_model(ref)
    elif k == "gen_mode_no":
        srf.generator.mode_no = op["v"]
        ref["mode_no"] = op["v"]
    elif k == "gen_seed":
        srf.generator.seed = seed_obj(op["v"], twin)
        ref["seed"] = op["v"]
    elif k == "period":
        pv = np.array(op["v"], dtype=np.double) if isinstance(op["v"], list) else op["v"]
        srf.generator.period = pv
        if isinstance(pv, np.ndarray):
            srf.__dict__.setdefault("_caller_arrays", []).append(pv)
        ref["period"] = _fill(op["v"], ref["dim"])
    elif k == "period_inplace":
        # read the attribute, change the array in place, assign it back (e.g. ``gen.period *= 0.5``)
        pv = srf.generator.period
        pv = np.array(pv, dtype=np.double) if np.ndim(pv) == 0 else pv
        pv *= op["f"]
        srf.generator.period = pv
        ref["period"] = [float(x) * op["f"] for x in ref["period"]]
    elif k == "caller_reuse":
        # the caller overwrites the arrays it passed earlier; the object owns its settings
        for a in srf.__dict__.get("_caller_arrays", []):
            a *= 3.0
        ref["reused"] = True  # part of the explored state: must not matter, but the search may not merge it away
    elif k == "gen_update":
        kw = {}
        if op.get("model") == "current":
            kw["model"] = srf.model
        elif op.get("model") == "equal":
            kw["model"] = make_model(ref)
        elif op.get("model") == "other_anis":
            ref["anis"] = [0.45, 1.3][: len(ref["anis"])]
            srf.model = make_model(ref)  # the field object and its generator stay on the same model
            kw["model"] = srf.model
        if op.get("seed") is not None:
            kw["seed"] = seed_obj(op["seed"], twin)
            ref["seed"] = op["seed"]
        if op.get("period") is not None:
            kw["period"] = op["period"]
            ref["period"] = _fill(op["period"], ref["dim"])
        if op.get("mode_no") is not None:
            kw["mode_no"] = ref["mode_no"] if op["mode_no"] == "current" else op["mode_no"]
            ref["mode_no"] = kw["mode_no"]
        srf.generator.update(**kw)
    elif k == "mean_velocity":
        srf.generator.mean_u = op["v"]
        ref["mean_velocity"] = op["v"]
    else:
        raise KeyError(k)
    return None


def _fill(v, d):
    v = list(np.atleast_1d(np.asarray(v, dtype=float)))[:d]
    return v + [v[-1]] * (d - len(v))


def canon(ref):
    key = {k: v for k, v in ref.items()}
    return json.dumps(key, sort_keys=True)


def run_history(cfg, hist, twin):
    ref = init_ref(cfg)
    srf = make_srf(cfg, ref, twin)
    outs = []
    for op in hist:
        outs.append(apply_op(srf, ref, op, cfg, twin))
    return srf, ref, outs


def main_axes(ref):
    """rotation matrix whose columns are the main axes, written from the documented convention
    (2-D: counter-clockwise angle about z; 3-D: rotations about z (yaw), then y (pitch), then x
    (roll), all right-handed: R = Rx(roll)·Ry(pitch)·Rz(yaw) maps isotropic to field coordinates)"""
    d = ref["dim"]
    if d == 1:
        return np.eye(1)
    a = list(ref["angles"])
    if d == 2:
        c, s = np.cos(a[0]), np.sin(a[0])
        return np.array([[c, -s], [s, c]])
    ca, sa = np.cos(a[0]), np.sin(a[0])
    cb, sb = np.cos(a[1]), np.sin(a[1])
    cc, sc = np.cos(a[2]), np.sin(a[2])
    Rz = np.array([[ca, -sa, 0], [sa, ca, 0], [0, 0, 1]])
    Ry = np.array([[cb, 0, sb], [0, 1, 0], [-sb, 0, cb]])
    Rx = np.array([[1, 0, 0], [0, cc, -sc], [0, sc, cc]])
    return Rx @ Ry @ Rz


def case_hist(case):
    """replay the history; judge the last step if it is a generating call"""
    cfg, hist = case["cfg"], case["hist"]
    r = R()
    srf, ref, outs = run_history(cfg, hist, "same")
    if any(isinstance(o, str) for o in outs):
        return R().done(skip="call on kept positions before any positions were given")
    key = canon(ref)
    if not hist or hist[-1]["k"] != "call":
        return r.done(outcome=key, nontrivial=bool(hist))
    op = hist[-1]
    if op["pos"] is None:  # judged at the positions that were kept
        op = dict(op, pos=ref["lastpos"])
    out = outs[-1]
    extra = {"gen": cfg["gen"], "cls": cfg["cls"], "last": op["k"], "prev": hist[-2]["k"] if len(hist) > 1 else "init", "prevattr": (hist[-2].get("attr") or hist[-2].get("which") or "") if len(hist) > 1 else ""}
    r.true("output finite", bool(np.all(np.isfinite(out))), **extra)
    # (1) identity independence: same history, equal-but-distinct seed objects
    srf2, ref2, outs2 = run_history(cfg, hist, "distinct")
    r.close("equal seed values, distinct seed objects -> identical output", outs2[-1], out, rtol=0, atol=0, **extra)
    # (2) replay determinism of the harness itself
    srf3, ref3, outs3 = run_history(cfg, hist, "same")
    if not np.array_equal(outs3[-1], out):
        r.fail("harness: same history twice gives different output", None, None, **extra)
    # (3) differential oracle: fresh SRF with the current settings and seed (nugget-free models)
    if ref["nugget"] == 0:
        fresh = make_srf(cfg, ref, "same")
        pos = positions(cfg, op["pos"])
        fo = fresh.structured(pos) if op["pos"] == "G" else fresh(pos)
        scale = float(np.sqrt(ref["var"])) * (abs(ref["mean_velocity"]) + 1.0)
        r.close("field after history == freshly constructed generator", out, np.array(fo, dtype=float), rtol=1e-10, atol=1e-10 * scale, **extra)
        # generator's view of its settings
        g = srf.generator
        if cfg["gen"] == "Fourier":
            r.close("generator.period == assigned", np.atleast_1d(g.period), ref["period"], rtol=1e-14, **extra)
            r.eq("generator.mode_no == assigned", [int(x) for x in np.atleast_1d(g.mode_no)], [int(x) for x in _fill(ref["mode_no"], ref["dim"])], **extra)
        else:
            r.eq("generator.mode_no == assigned", int(g.mode_no), int(ref["mode_no"]), **extra)
        r.true("generator.model == srf.model", bool(g.model == srf.model), **extra)
    # (4) periodicity for the current settings (Fourier, nugget free)
    if cfg["gen"] == "Fourier" and ref["nugget"] == 0:
        pos = positions(cfg, "P")
        base = np.array(srf(pos), dtype=float)
        A = main_axes(ref)
        amp = float(np.sqrt(ref["var"]))
        for i in range(ref["dim"]):
            for mult in (1.0, -2.0):
                sh = pos + (mult * ref["period"][i] * A[:, i])[:, None]
                r.close("field periodic along main axis with current period", np.array(srf(sh), dtype=float), base, rtol=1e-9, atol=1e-9 * amp, axis=i, mult=mult, **extra)
            half = pos + (0.5 * ref["period"][i] * A[:, i])[:, None]
            hv = np.array(srf(half), dtype=float)
            if np.allclose(hv, base, rtol=1e-6, atol=1e-6 * amp):
                r.notes["half_period_reproduces"] = True
    return r.done(outcome=key, sub={"calls_judged": 1})


# ---------------------------------------------------------------------------
def ops_for(cfg, tier="quick"):
    d = cfg["dim"]
    ops = []
    A = ops.append
    for s in ["S1", "S2", None]:
        A({"k": "call", "pos": "P", "seed": s})
    A({"k": "call", "pos": "Q", "seed": None})
    A({"k": "call", "pos": "P2", "seed": None})
    A({"k": "call", "pos": "G", "seed": "S1"})
    A({"k": "call", "pos": None, "seed": None})
    A({"k": "call", "pos": None, "seed": "S1"})
    for attr, v in [("var", 2.6), ("var", 1.3), ("len_scale", 3.0), ("len_scale", 2.0), ("len_scale", 2.002)]:
        A({"k": "model", "attr": attr, "v": v})
    if cfg["gen"] != "IncomprRandMeth" and d > 1:
        A({"k": "model", "attr": "anis", "v": [0.75, 0.6][: d - 1]})
        A({"k": "model", "attr": "anis", "v": list(BASE_ANIS[d])})
        A({"k": "model", "attr": "anis", "v": [1.0] * (d - 1)})  # anisotropic -> isotropic
        if d > 2:
            A({"k": "model", "attr": "anis", "v": [BASE_ANIS[d][0], 1.7]})  # only one of the ratios changes
        if cfg.get("rotate", True):
            A({"k": "model", "attr": "angles", "v": [1.0, 0.5, -0.4][: len(BASE_ANGLES[d])]})
            if d == 3:
                A({"k": "model", "attr": "angles", "v": [0.7, 0.0, -0.4]})  # a zero angle among non-zero ones
    for name, v in cfg.get("opt_ops", []):
        A({"k": "opt", "name": name, "v": v})
    A({"k": "assign_model", "which": "equal"})
    A({"k": "assign_model", "which": "other", "len_scale": 3.5})
    A({"k": "gen_seed", "v": "S2"})
    if cfg["gen"] == "Fourier":
        A({"k": "gen_mode_no", "v": 4})
        A({"k": "period", "v": [7.3, 12.0, 6.0][:d]})
        A({"k": "period", "v": 9.0})
        A({"k": "period_inplace", "f": 0.5})
        A({"k": "caller_reuse"})
        A({"k": "gen_update", "model": "current", "period": [8.0, 6.0, 11.0][:d]})
        A({"k": "gen_update", "model": "equal", "mode_no": [4, 8, 2][:d]})
        A({"k": "gen_update", "model": None, "seed": "S2", "period": 6.5})
        # settings passed again with their present value together with a changed one
        A({"k": "gen_update", "model": None, "period": [11.0, 5.5, 8.0][:d], "mode_no": "current"})
        if d > 1:
            A({"k": "gen_update", "model": "other_anis", "mode_no": "current"})
            A({"k": "period", "v": [9.5, 13.0][: d - 1] if d > 2 else [9.5]})  # shorter than dim: filled with the last entry
    else:
        A({"k": "gen_mode_no", "v": 7})
        A({"k": "gen_update", "model": "current", "seed": "S2"})
        A({"k": "gen_update", "model": None, "seed": "S1"})
    if cfg["gen"] == "IncomprRandMeth":
        A({"k": "mean_velocity", "v": -2.0})
    return ops
