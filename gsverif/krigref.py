"""Independent dense reference solution of the kriging equations (shared by C05, C06, C13).

The kriging system is assembled from the documented definition:
    [[C + E, F^T], [F, 0]] [w; mu] = [c0; f0]
with C the model covariance between the conditioning points (nugget excluded at zero lag), E
the measurement-error diagonal (the model nugget by default), F the unbiasedness row and the
drift rows (functional drifts evaluated in field coordinates, external drifts as given), c0
the covariance to the target (nugget-aware, i.e. the sill at zero lag, when ``exact``).
estimate = w . z~, variance = sill - [c0; f0]^T K^-1 [c0; f0] (clipped at 0), where
z~ = normalize(z - trend) - mean.  Solved with numpy.linalg (lstsq for singular systems).
Covariances are evaluated by formulas written here for the main classes; positions are
made isotropic by the geometry oracle.
"""
import math

import numpy as np
from scipy.special import gamma as _gamma
from scipy.special import kv as _kv

import gstools as gs

from .oracles import geometry as og

EPS = np.finfo(float).eps


def ref_cor(cls, opts, h):
    """normalised correlation as function of h = rescale * r / len_scale (float formulas)"""
    h = np.abs(np.asarray(h, dtype=float))
    if cls == "Gaussian":
        return np.exp(-(h**2))
    if cls == "Exponential":
        return np.exp(-h)
    if cls == "Spherical":
        return np.where(h < 1, 1 - 1.5 * h + 0.5 * h**3, 0.0)
    if cls == "Stable":
        return np.exp(-(h ** opts["alpha"]))
    if cls == "Matern":
        nu = opts["nu"]
        out = np.ones_like(h)
        nz = h > 0
        x = math.sqrt(nu) * h[nz]
        out[nz] = 2 ** (1 - nu) / _gamma(nu) * x**nu * _kv(nu, x)
        return out
    if cls == "Cubic":
        return np.where(h < 1, 1 - 7 * h**2 + 8.75 * h**3 - 3.5 * h**5 + 0.75 * h**7, 0.0)
    if cls == "Rational":
        a = opts["alpha"]
        return (1 + h**2 / a) ** (-a)
    return None


RESCALE = {"Gaussian": math.sqrt(math.pi) / 2}


class Geo:
    """coordinate configuration: euclid / temporal / latlon / latlon+temporal"""

    def __init__(self, kind, sdim, anis=None, angles=None, geo_scale=1.0, t_anis=1.0):
        self.kind, self.sdim = kind, sdim
        self.latlon = kind.startswith("latlon")
        self.temporal = kind.endswith("time")
        self.geo_scale, self.t_anis = geo_scale, t_anis
        self.anis = list(anis or [1.0] * (sdim - 1))
        self.angles = list(angles or [0.0] * og.n_angles(sdim))
        self.field_dim = (2 if self.latlon else sdim) + int(self.temporal)

    def model_kwargs(self):
        kw = {}
        if self.latlon:
            kw.update(latlon=True, geo_scale=self.geo_scale)
            if self.temporal:
                kw.update(temporal=True, anis=[1.0, 1.0, self.t_anis])
            return kw
        if self.temporal:
            kw.update(temporal=True, spatial_dim=self.sdim)
            kw["anis"] = self.anis + [self.t_anis]
            n_full = og.n_angles(self.sdim + 1)
            kw["angles"] = self.angles + [0.0] * (n_full - len(self.angles))
        else:
            kw["dim"] = self.sdim
            if self.sdim > 1:
                kw["anis"] = self.anis
                kw["angles"] = self.angles
        return kw

    def iso(self, pos):
        """field coordinates -> isotropic coordinates in which the covariance is radial"""
        pos = np.asarray(pos, dtype=float).reshape(self.field_dim, -1)
        if self.latlon:
            xyz = og.latlon2xyz(pos[0], pos[1], self.geo_scale)
            if self.temporal:
                return np.vstack([xyz, pos[2:3] / self.t_anis])
            return xyz
        sp = og.isometrize(self.sdim, self.angles, self.anis, pos[: self.sdim])
        if self.temporal:
            return np.vstack([sp, pos[self.sdim :] / self.t_anis])
        return sp


def dist(a, b):
    return np.sqrt(((a[:, :, None] - b[:, None, :]) ** 2).sum(axis=0))


class RefKrige:
    def __init__(self, cls, opts, var, len_scale, nugget, geo, cond_pos, cond_val, *, unbiased, drift_fns=(), cond_ext=None, mean=None, trend=None, normalizer=None, exact=False, cond_err="nugget", gs_model=None):
        self.cls, self.opts, self.var, self.ls, self.nug, self.geo = cls, opts, var, len_scale, nugget, geo
        self.cp = np.asarray(cond_pos, dtype=float).reshape(geo.field_dim, -1)
        self.cv = np.asarray(cond_val, dtype=float)
        self.unbiased, self.drift_fns = unbiased, list(drift_fns)
        self.cond_ext = None if cond_ext is None else np.atleast_2d(np.asarray(cond_ext, dtype=float))
        self.mean, self.trend, self.norm, self.exact = mean, trend, normalizer, exact
        self.gs_model = gs_model
        n = self.cv.size
        self.n = n
        if isinstance(cond_err, str):
            E = np.full(n, nugget)
        else:
            E = np.broadcast_to(np.asarray(cond_err, dtype=float), (n,)).copy()
        self.sill = var + nugget
        ip = geo.iso(self.cp)
        self.ip = ip
        C = self.cov(dist(ip, ip))
        rows = []
        if unbiased:
            rows.append(np.ones(n))
        for f in self.drift_fns:
            rows.append(np.asarray(f(*self.cp), dtype=float) * np.ones(n))
        if self.cond_ext is not None:
            for e in self.cond_ext:
                rows.append(e)
        self.m = len(rows)
        K = np.zeros((n + self.m, n + self.m))
        K[:n, :n] = C + np.diag(E)
        for k, row in enumerate(rows):
            K[n + k, :n] = row
            K[:n, n + k] = row
        self.K = K
        sv = np.linalg.svd(K, compute_uv=False)
        self.cond = float(sv[0] / sv[-1]) if sv[-1] > 0 else math.inf

    def cov(self, r):
        s = RESCALE.get(self.cls, 1.0)
        c = ref_cor(self.cls, self.opts, s * r / self.ls)
        if c is None:  # class without a float formula here: the library's own cor (decided by C03)
            c = self.gs_model.cor(s * r / self.ls)
        return self.var * c

    def ztilde(self):
        z = self.cv - self._ev(self.trend, self.cp)
        if self.norm is not None:
            z = self.norm.normalize(z)
        return z - self._ev(self.mean, self.cp)

    @staticmethod
    def _ev(f, pos):
        if f is None:
            return 0.0
        if callable(f):
            return np.asarray(f(*pos), dtype=float)
        return float(f)

    def rhs(self, tp, ext=None, only_mean=False):
        tp = np.asarray(tp, dtype=float).reshape(self.geo.field_dim, -1)
        d = dist(self.ip, self.geo.iso(tp))
        c0 = self.cov(d)
        if self.exact:
            c0 = np.where(d <= 1e-8, self.sill, c0)
        if only_mean:
            c0 = np.zeros_like(c0)
        rows = []
        if self.unbiased:
            rows.append(np.ones(tp.shape[1]))
        for f in self.drift_fns:
            rows.append(np.asarray(f(*tp), dtype=float) * np.ones(tp.shape[1]))
        if self.cond_ext is not None:
            for e in np.atleast_2d(np.asarray(ext, dtype=float)):
                rows.append(e)
        return np.vstack([c0] + rows) if rows else c0

    def solve(self, tp, ext=None, only_mean=False):
        """returns weights (n x t), raw estimate, unclipped variance"""
        b = self.rhs(tp, ext, only_mean)
        if self.cond < 1e12:
            sol = np.linalg.solve(self.K, b)
        else:
            sol = np.linalg.lstsq(self.K, b, rcond=None)[0]
        w = sol[: self.n]
        est = w.T @ self.ztilde()
        var = self.sill - np.einsum("ij,ij->j", b, sol)
        return w, est, var

    def post(self, est, tp):
        tp = np.asarray(tp, dtype=float).reshape(self.geo.field_dim, -1)
        inner = est + self._ev(self.mean, tp)
        if self.norm is not None:
            inner = self.norm.denormalize(inner)
        return inner + self._ev(self.trend, tp)

    def mean_estimate(self):
        """kriged mean of the (detrended, normalised) field: rhs with zero covariance part"""
        if not self.unbiased:
            return 0.0
        b = np.zeros(self.n + self.m)
        b[self.n] = 1.0
        sol = np.linalg.solve(self.K, b) if self.cond < 1e12 else np.linalg.lstsq(self.K, b, rcond=None)[0]
        return float(sol[: self.n] @ self.ztilde())

    def tol(self, scale=1.0):
        return 1e3 * EPS * self.cond * (scale + 1.0)


def make_gs_model(cls, opts, var, len_scale, nugget, geo):
    return getattr(gs, cls)(var=var, len_scale=len_scale, nugget=nugget, **opts, **geo.model_kwargs())
