"""Reference correlation functions written from the class docstrings (mpmath, 30 digits).

No gstools import.  ``ref_cor(cls, opts, dim, h)`` is the documented normalised correlation
as a function of the normalised lag h = s*r/len_scale; the TPL models are functions of r and
the (rescaled) cut-off scales.
"""
import functools
import math

import mpmath as mp

mp.mp.dps = 30

SHIPPED = ["Gaussian", "Exponential", "Stable", "Matern", "Integral", "Rational", "Cubic", "Linear", "Circular", "Spherical", "HyperSpherical", "SuperSpherical", "JBessel", "TPLSimple", "TPLGaussian", "TPLExponential", "TPLStable"]
DEFAULT_RESCALE = {c: 1.0 for c in SHIPPED}
DEFAULT_RESCALE["Gaussian"] = math.sqrt(math.pi) / 2
COMPACT = {"Cubic", "Linear", "Circular", "Spherical", "HyperSpherical", "SuperSpherical", "TPLSimple"}
TPL = {"TPLGaussian", "TPLExponential", "TPLStable"}
# dimensions in which the class is documented / checked (check_dim) to be valid
VALID_DIMS = {"Linear": [1], "Circular": [1, 2], "Spherical": [1, 2, 3]}


def valid_dims(cls, upto=3):
    return [d for d in range(1, upto + 1) if d in VALID_DIMS.get(cls, list(range(1, upto + 1)))]


def _key(opts):
    return tuple(sorted((k, float(v)) for k, v in opts.items()))


@functools.lru_cache(maxsize=200000)
def _cor(cls, okey, dim, h):
    o = dict(okey)
    h = mp.mpf(h)
    if h < 0:
        h = -h
    if cls == "Gaussian":
        return mp.exp(-(h**2))
    if cls == "Exponential":
        return mp.exp(-h)
    if cls == "Stable":
        return mp.exp(-(h ** mp.mpf(o["alpha"])))
    if cls == "Matern":
        nu = mp.mpf(o["nu"])
        if nu > 20:
            return mp.exp(-((h / 2) ** 2))
        if h == 0:
            return mp.mpf(1)
        x = mp.sqrt(nu) * h
        return 2 ** (1 - nu) / mp.gamma(nu) * x**nu * mp.besselk(nu, x)
    if cls == "Integral":
        nu = mp.mpf(o["nu"])
        return nu / 2 * mp.expint(1 + nu / 2, h**2)
    if cls == "Rational":
        a = mp.mpf(o["alpha"])
        return (1 + h**2 / a) ** (-a)
    if cls == "Cubic":
        return 1 - 7 * h**2 + mp.mpf(35) / 4 * h**3 - mp.mpf(7) / 2 * h**5 + mp.mpf(3) / 4 * h**7 if h < 1 else mp.mpf(0)
    if cls == "Linear":
        return 1 - h if h < 1 else mp.mpf(0)
    if cls == "Circular":
        return 2 / mp.pi * (mp.acos(h) - h * mp.sqrt(1 - h**2)) if h < 1 else mp.mpf(0)
    if cls == "Spherical":
        return 1 - mp.mpf(3) / 2 * h + h**3 / 2 if h < 1 else mp.mpf(0)
    if cls in ("HyperSpherical", "SuperSpherical"):
        nu = mp.mpf(dim - 1) / 2 if cls == "HyperSpherical" else mp.mpf(o["nu"])
        if h >= 1:
            return mp.mpf(0)
        return 1 - h * mp.hyp2f1(0.5, -nu, 1.5, h**2) / mp.hyp2f1(0.5, -nu, 1.5, 1)
    if cls == "JBessel":
        nu = mp.mpf(o["nu"])
        if h == 0:
            return mp.mpf(1)
        return mp.gamma(nu + 1) * mp.besselj(nu, h) / (h / 2) ** nu
    if cls == "TPLSimple":
        return (1 - h) ** mp.mpf(o["nu"]) if h < 1 else mp.mpf(0)
    raise KeyError(cls)


def ref_cor(cls, opts, dim, h):
    return _cor(cls, _key(opts), int(dim), float(h))


@functools.lru_cache(maxsize=200000)
def _tpl(cls, okey, r, len_scale, rescale):
    """TPL correlation: 1 - gamma/sigma^2 from the documented superposition result; the
    rescale factor divides both cut-off scales"""
    o = dict(okey)
    r = mp.mpf(abs(r))
    H = mp.mpf(o["hurst"])
    low = mp.mpf(o.get("len_low", 0.0)) / mp.mpf(rescale)
    up = (mp.mpf(o.get("len_low", 0.0)) + mp.mpf(len_scale)) / mp.mpf(rescale)
    if cls == "TPLGaussian":
        fac, order, p = H, 1 + H, 2
    elif cls == "TPLExponential":
        fac, order, p = 2 * H, 1 + 2 * H, 1
    else:
        a = mp.mpf(o["alpha"])
        fac, order, p = 2 * H / a, 1 + 2 * H / a, a
    if r == 0:
        return mp.mpf(1)

    def term(length):
        if length == 0:
            return mp.mpf(0)
        return length ** (2 * H) * mp.expint(order, (r / length) ** p)

    return fac * (term(up) - term(low)) / (up ** (2 * H) - low ** (2 * H))


def ref_correlation(cls, opts, dim, r, len_scale, rescale):
    """documented correlation(r) = cor(rescale * r / len_scale)"""
    if cls in TPL:
        return _tpl(cls, _key(opts), float(r), float(len_scale), float(rescale))
    return ref_cor(cls, opts, dim, float(rescale) * abs(float(r)) / float(len_scale))


def tpl_var_factor(opts, len_scale, rescale):
    H = opts["hurst"]
    low = opts.get("len_low", 0.0) / rescale
    up = (opts.get("len_low", 0.0) + len_scale) / rescale
    return (up ** (2 * H) - low ** (2 * H)) / (2 * H)


def support(cls):
    return cls in COMPACT


def near_integer_order_grid(cls, tier="quick"):
    """parameter sets for which the order of the exponential integral behind the correlation is an
    integer up to rounding (TPLStable: 1 + 2 hurst / alpha = 3.9999999999999996) or lies inside the
    library's isclose window around an integer (Integral: 1 + nu / 2 = 2 - 5e-6)"""
    # (also: a lower cut-off that is tiny relative to the length scale but not zero, and hurst > alpha / 2,
    # where the incomplete gamma recursion takes more than one step)
    if cls == "TPLStable":
        return [{"hurst": 0.6, "alpha": 0.4, "len_low": 0.0}, {"hurst": 0.15, "alpha": 1.0, "len_low": 2e-6}, {"hurst": 0.9, "alpha": 0.7, "len_low": 0.0}]
    if cls == "TPLGaussian":
        return [{"hurst": 0.15, "len_low": 2e-6}]
    if cls == "TPLExponential":
        return [{"hurst": 0.15, "len_low": 2e-6}, {"hurst": 0.7, "len_low": 0.0}]
    if cls == "Integral":
        return [{"nu": 2.0 - 1e-5}]
    return []


def opt_grid(cls, dim, tier="quick"):
    """optional-argument grid incl. both (dimension dependent) bounds"""
    d = dim
    if cls == "Stable":
        g = [{"alpha": a} for a in ([0.3, 1.5, 2.0] if tier == "quick" else [0.3, 0.5, 1.0, 1.5, 2.0])]
    elif cls == "Matern":
        g = [{"nu": v} for v in ([0.2, 1.5, 20.0, 20.0001] if tier == "quick" else [0.2, 0.5, 1.0, 1.5, 2.5, 10.0, 20.0, 20.0001, 30.0])]
    elif cls == "Integral":
        g = [{"nu": v} for v in ([0.1, 1.0, 50.0] if tier == "quick" else [0.01, 0.1, 1.0, 2.0, 5.0, 50.0])]
    elif cls == "Rational":
        g = [{"alpha": v} for v in ([0.5, 1.0, 50.0] if tier == "quick" else [0.5, 0.7, 1.0, 2.0, 5.0, 50.0])]
    elif cls == "SuperSpherical":
        lo = (d - 1) / 2
        g = [{"nu": v} for v in ([lo, lo + 1.0, 50.0] if tier == "quick" else [lo, lo + 0.3, lo + 1.0, 5.0, 50.0])]
    elif cls == "JBessel":
        lo = d / 2 - 1
        g = [{"nu": v} for v in ([lo, d / 2, 5.0, 50.0] if tier == "quick" else [lo, lo + 0.1, d / 2, 2.0, 5.0, 20.0, 50.0])]
    elif cls == "TPLSimple":
        lo = (d + 1) / 2
        g = [{"nu": v} for v in ([lo, 5.0, 50.0] if tier == "quick" else [lo, lo + 0.5, 5.0, 20.0, 50.0])]
    elif cls in ("TPLGaussian", "TPLExponential"):
        hs = [0.11, 0.5, 0.99] if cls == "TPLGaussian" else [0.11, 0.4, 0.9]
        g = [{"hurst": h, "len_low": ll} for h in hs for ll in (0.0, 0.7)]
        if tier == "quick":
            g = [g[0], g[3], g[4]]
    elif cls == "TPLStable":
        g = [{"hurst": h, "alpha": a, "len_low": ll} for h in (0.11, 0.5, 0.99) for a in (0.5, 1.5, 2.0) for ll in (0.0, 0.7)]
        if tier == "quick":
            g = [g[0], g[9], g[17], g[8]]
    else:
        g = [{}]
    return g
