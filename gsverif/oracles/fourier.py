"""d-dimensional radial Fourier transform of an isotropic correlation function (no gstools import).

Definition as documented for ``CovModel.spectrum``:  S(k) = (1/2pi)^d  int rho(|r|) e^{i k.r} d^d r
  d = 1:  S(k) = 1/pi      int_0^inf rho(r) cos(k r) dr
  d = 2:  S(k) = 1/(2 pi)  int_0^inf rho(r) r J0(k r) dr
  d = 3:  S(k) = 1/(2 pi^2 k) int_0^inf rho(r) r sin(k r) dr
evaluated by QUADPACK (QAWF / QAWO for the trigonometric weights; between consecutive Bessel
zeros for d = 2).  ``rmax`` is the support radius for compactly supported correlations, or the
radius beyond which |rho(r)| r^(d-1) < 1e-15 (found by doubling; None => heavy tail, undecidable here).
"""
import math

import numpy as np
from scipy import integrate, special


def surface(d, k):
    """surface of the sphere of radius k in d dimensions: 2 pi^(d/2) / Gamma(d/2) k^(d-1)"""
    return 2.0 * math.pi ** (d / 2.0) / math.gamma(d / 2.0) * np.asarray(k, dtype=float) ** (d - 1)


def find_rmax(f, d, unit, support=None):
    if support is not None:
        return support
    r = 5.0 * unit
    for _ in range(40):
        if abs(f(r)) * r ** (d - 1) < 1e-15 and abs(f(1.5 * r)) * (1.5 * r) ** (d - 1) < 1e-15:
            return r
        r *= 1.6
        if r > 1e5 * unit:
            return None
    return None


def _quad(f, a, b, **kw):
    return integrate.quad(f, a, b, limit=400, epsabs=1e-14, epsrel=1e-12, **kw)[0]


def rft(f, k, d, rmax, unit):
    """radial Fourier transform at wave number k (scalar)"""
    k = float(k)
    brk = [x for x in (0.05 * unit, 0.3 * unit, unit, 3 * unit, 10 * unit) if x < rmax]
    if d == 1:
        if k == 0:
            return integrate.quad(f, 0, rmax, limit=400, points=brk, epsabs=1e-14, epsrel=1e-12)[0] / math.pi
        return _quad(f, 0, rmax, weight="cos", wvar=k) / math.pi
    if d == 3:
        if k == 0:
            return integrate.quad(lambda r: f(r) * r * r, 0, rmax, limit=400, points=brk, epsabs=1e-14, epsrel=1e-12)[0] / (2 * math.pi**2)
        return _quad(lambda r: f(r) * r, 0, rmax, weight="sin", wvar=k) / (2 * math.pi**2 * k)
    if d == 2:
        g = lambda r: f(r) * r * special.j0(k * r)
        if k == 0 or k * rmax < 8:
            return integrate.quad(g, 0, rmax, limit=400, points=brk, epsabs=1e-14, epsrel=1e-12)[0] / (2 * math.pi)
        nz = int(k * rmax / math.pi) + 2
        zeros = special.jn_zeros(0, nz) / k
        edges = [0.0] + [z for z in zeros if z < rmax] + [rmax]
        tot = 0.0
        for a, b in zip(edges[:-1], edges[1:]):
            tot += integrate.quad(g, a, b, epsabs=1e-15, epsrel=1e-12)[0]
        return tot / (2 * math.pi)
    raise ValueError(d)


def window_lhs(f, a, d, rmax, unit):
    """int rho(r) exp(-r^2 / 2a^2) A_d(r) dr  (non-oscillatory)"""
    R = min(rmax, 12 * a) if rmax is not None else 12 * a
    brk = [x for x in (0.05 * unit, 0.3 * unit, unit, 3 * unit, a, 3 * a) if x < R]
    return integrate.quad(lambda r: f(r) * math.exp(-r * r / (2 * a * a)) * float(surface(d, r)), 0, R, limit=400, points=sorted(brk), epsabs=1e-14, epsrel=1e-12)[0]


def window_rhs(S, a, d, unit):
    """(2 pi a^2)^(d/2) int S(k) exp(-a^2 k^2 / 2) A_d(k) dk"""
    K = 12.0 / a
    brk = [x for x in (0.1 / unit, 1 / unit, 3 / unit, 1 / a, 3 / a) if x < K]
    val = integrate.quad(lambda k: float(S(k)) * math.exp(-a * a * k * k / 2) * float(surface(d, k)), 0, K, limit=400, points=sorted(brk), epsabs=1e-14, epsrel=1e-12)[0]
    return (2 * math.pi * a * a) ** (d / 2.0) * val
