"""Explicit rotation / stretching matrices written from the documentation (no gstools import).

2-D: rotation around the z-axis, counter-clockwise.  3-D: Tait-Bryan yaw, pitch, roll as
right-handed rotations about z, y, x applied in that order.  n-D: rotations in the planes
x-y, x-z, y-z, x-v, y-v, z-v, ... in that order with alternating sign (tutorial 'higher
dimensions').  The rotation maps isotropic (model) coordinates to field coordinates; its
columns are the main axes.
"""
import numpy as np


def planes(dim):
    return [(i, j) for j in range(1, dim) for i in range(j)]


def n_angles(dim):
    return dim * (dim - 1) // 2


def givens(dim, p, q, theta):
    g = np.eye(dim)
    c, s = np.cos(theta), np.sin(theta)
    g[p, p] = c
    g[q, q] = c
    g[p, q] = -s
    g[q, p] = s
    return g


def rotation(dim, angles):
    a = list(np.atleast_1d(np.asarray(angles, dtype=float)))[: n_angles(dim)]
    a = a + [0.0] * (n_angles(dim) - len(a))
    R = np.eye(dim)
    for i, ((p, q), th) in enumerate(zip(planes(dim), a)):
        R = givens(dim, p, q, (-1) ** i * th) @ R
    return R


def rot3_explicit(yaw, pitch, roll):
    ca, sa, cb, sb, cc, sc = np.cos(yaw), np.sin(yaw), np.cos(pitch), np.sin(pitch), np.cos(roll), np.sin(roll)
    Rz = np.array([[ca, -sa, 0], [sa, ca, 0], [0, 0, 1]])
    Ry = np.array([[cb, 0, sb], [0, 1, 0], [-sb, 0, cb]])
    Rx = np.array([[1, 0, 0], [0, cc, -sc], [0, sc, cc]])
    return Rx @ Ry @ Rz


def fill_anis(dim, anis):
    a = list(np.atleast_1d(np.asarray(anis, dtype=float)))[: dim - 1]
    return [1.0] * (dim - 1 - len(a)) + a


def isometrize(dim, angles, anis, pos):
    """field coordinates -> isotropic coordinates: rotate back, divide transversal axes"""
    pos = np.asarray(pos, dtype=float).reshape(dim, -1)
    s = np.array([1.0] + fill_anis(dim, anis))
    return (rotation(dim, angles).T @ pos) / s[:, None]


def anisometrize(dim, angles, anis, pos):
    pos = np.asarray(pos, dtype=float).reshape(dim, -1)
    s = np.array([1.0] + fill_anis(dim, anis))
    return rotation(dim, angles) @ (pos * s[:, None])


# lat-lon geometry (spherical trigonometry; not the haversine formula)
def latlon2xyz(lat, lon, radius=1.0):
    lat, lon = np.deg2rad(np.asarray(lat, dtype=float)), np.deg2rad(np.asarray(lon, dtype=float))
    return radius * np.array([np.cos(lat) * np.cos(lon), np.cos(lat) * np.sin(lon), np.sin(lat)])


def great_circle(lat1, lon1, lat2, lon2):
    """central angle by the atan2 (Vincenty) formula, radians"""
    p1, l1, p2, l2 = map(lambda v: np.deg2rad(np.asarray(v, dtype=float)), (lat1, lon1, lat2, lon2))
    dl = l2 - l1
    num = np.hypot(np.cos(p2) * np.sin(dl), np.cos(p1) * np.sin(p2) - np.sin(p1) * np.cos(p2) * np.cos(dl))
    den = np.sin(p1) * np.sin(p2) + np.cos(p1) * np.cos(p2) * np.cos(dl)
    return np.arctan2(num, den)
