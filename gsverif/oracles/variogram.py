"""O(n^2) reference implementation of the empirical variogram definitions (no gstools import).

Written from the docstrings of vario_estimate / vario_estimate_axis:
  gamma(r_k) = 1/(2 N(r_k)) sum (z_i - z_j)^2                          (Matheron)
  gamma(r_k) = 0.5 (1/N sum |z_i - z_j|^0.5)^4 / (0.457 + 0.494/N + 0.045/N^2)   (Cressie)
with r_k <= |x_i - x_j| < r_k+1 (half-open bins); pairs with a missing value in a field are
skipped for that field; several fields are pooled; a pair belongs to a direction if the angle
between the pair vector and the direction line is below the tolerance and (if a bandwidth is
given) its distance from the direction line is below the bandwidth; coincident points belong
to every direction.
"""
import math

import numpy as np


def pair_index(n):
    return np.triu_indices(n, k=1)


def euclid(pos):
    pos = np.asarray(pos, dtype=float)
    j, k = pair_index(pos.shape[1])
    d = pos[:, k] - pos[:, j]
    return np.sqrt((d * d).sum(axis=0)), d


def great_circle(latlon):
    """central angle in radians, atan2 (Vincenty) formula"""
    lat, lon = np.deg2rad(np.asarray(latlon, dtype=float))
    j, k = pair_index(lat.size)
    p1, p2, dl = lat[j], lat[k], lon[k] - lon[j]
    num = np.hypot(np.cos(p2) * np.sin(dl), np.cos(p1) * np.sin(p2) - np.sin(p1) * np.cos(p2) * np.cos(dl))
    den = np.sin(p1) * np.sin(p2) + np.cos(p1) * np.cos(p2) * np.cos(dl)
    return np.arctan2(num, den)


def normalise(sums, counts, estimator):
    n = np.maximum(counts, 1).astype(float)
    if estimator == "m":
        return sums / (2.0 * n)
    return 0.5 * (sums / n) ** 4 / (0.457 + 0.494 / n + 0.045 / n**2)


def contrib(fields, estimator):
    """per (field, pair) contribution and validity"""
    f = np.atleast_2d(np.asarray(fields, dtype=float))
    j, k = pair_index(f.shape[1])
    diff = f[:, k] - f[:, j]
    valid = ~np.isnan(diff)
    c = diff * diff if estimator == "m" else np.sqrt(np.abs(diff))
    return np.where(valid, c, 0.0), valid


def binned(dist, edges, c, valid, pair_mask=None):
    """sum contributions of pairs with edges[i] <= dist < edges[i+1]"""
    nb = len(edges) - 1
    sums, counts = np.zeros(nb), np.zeros(nb, dtype=np.int64)
    for i in range(nb):
        sel = (dist >= edges[i]) & (dist < edges[i + 1])
        if pair_mask is not None:
            sel = sel & pair_mask
        sums[i] = c[:, sel].sum()
        counts[i] = valid[:, sel].sum()
    return sums, counts


def binned_fast(dist, edges, csum, vcount, pair_mask=None):
    """same as ``binned`` with per-pair totals precomputed: csum = contributions summed over the
    fields, vcount = number of fields in which the pair is valid"""
    nb = len(edges) - 1
    idx = np.searchsorted(edges, dist, side="right") - 1  # edges[i] <= dist < edges[i+1]
    ok = (idx >= 0) & (idx < nb)
    if pair_mask is not None:
        ok &= pair_mask
    ii = idx[ok]
    return np.bincount(ii, weights=csum[ok], minlength=nb), np.bincount(ii, weights=vcount[ok], minlength=nb).astype(np.int64)


def unstructured(fields, edges, dist, estimator):
    c, valid = contrib(fields, estimator)
    sums, counts = binned(dist, np.asarray(edges, dtype=float), c, valid)
    return normalise(sums, counts, estimator), counts


def direction_masks(dvec, dist, directions, angles_tol, bandwidth):
    """pair x direction membership and the margin to the nearest decision boundary"""
    dirs = np.atleast_2d(np.asarray(directions, dtype=float))
    masks = []
    margin = math.inf
    for u in dirs:
        s = (dvec * u[:, None]).sum(axis=0)
        ok = np.ones(dist.shape, dtype=bool)
        if bandwidth is not None and bandwidth > 0:
            perp = dvec - s[None, :] * u[:, None]
            bd = np.sqrt((perp * perp).sum(axis=0))
            ok &= bd < bandwidth
            margin = min(margin, float(np.min(np.abs(bd - bandwidth)))) if bd.size else margin
        nz = dist > 0
        with np.errstate(invalid="ignore", divide="ignore"):
            t = np.where(nz, np.abs(s) / np.where(nz, dist, 1.0), 1.0)
        ang = np.arccos(np.minimum(t, 1.0))
        in_angle = np.where(nz & (t < 1.0), ang < angles_tol, True)
        ok &= in_angle
        if np.any(nz & (t < 1.0)):
            margin = min(margin, float(np.min(np.abs(ang[nz & (t < 1.0)] - angles_tol))))
        masks.append(ok)
    return np.array(masks), margin


def directional(fields, edges, dist, dvec, directions, angles_tol, bandwidth, estimator):
    c, valid = contrib(fields, estimator)
    masks, margin = direction_masks(dvec, dist, directions, angles_tol, bandwidth)
    est, cnt = [], []
    for m in masks:
        sums, counts = binned(dist, np.asarray(edges, dtype=float), c, valid, m)
        est.append(normalise(sums, counts, estimator))
        cnt.append(counts)
    return np.array(est), np.array(cnt), margin


def axis(field, mask, ax, estimator):
    """along-axis variogram on a regular grid: pairs (i, i+k) along ``ax`` in every line"""
    f = np.moveaxis(np.asarray(field, dtype=float), ax, 0)
    m = np.zeros(f.shape, dtype=bool) if mask is None else np.moveaxis(np.asarray(mask, dtype=bool), ax, 0)
    n = f.shape[0]
    f2, m2 = f.reshape(n, -1), m.reshape(n, -1)
    sums, counts = np.zeros(n), np.zeros(n, dtype=np.int64)
    for k in range(1, n):
        a, b = f2[:-k], f2[k:]
        ok = ~(m2[:-k] | m2[k:])
        d = np.where(ok, a - b, 0.0)
        sums[k] = (d * d).sum() if estimator == "m" else np.sqrt(np.abs(d)).sum()
        counts[k] = ok.sum()
    return normalise(sums, counts, estimator), counts
