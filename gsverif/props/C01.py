"""C01 - generated random fields reproduce the model covariance.

The ensemble claim is reduced to parts that are decided on enumerated executions:
 1. structure (exact, every execution): the returned field equals the documented mode sum
    evaluated by numpy from the generator's sample arrays and the *oracle's* coordinate
    transform; Fourier weights equal sqrt(spectrum(|k|) prod(delta_k)) on the documented grid;
 2. amplitude law: pooled z_1, z_2 and nugget draws over the complete seed window: moments,
    cross- and lag-correlations within 6 sigma of the N(0,1) values;
 3. spectral-sample law: pooled directions (mean 0, covariance I/d, radius-direction
    correlation 0); radii under inversion sampling against the integrated radial pdf within
    the Dvoretzky-Kiefer-Wolfowitz bound at level 1e-9;
 4. covariance and rate: exact conditional covariance per seed on a lag lattice (e_1, diagonal,
    rotated main axes); normalised error e(N) = sqrt(N) RMS_s |C_s(h) - C(h)| / var <= 3 at
    every enumerated N; unbiasedness (6 sigma) for inversion sampling; Fourier generator:
    Poisson-summation inequalities between the mode sum and the periodised covariance, and
    the truncation term decreasing when mode_no doubles;
 5. mean of the field over the seed window within 6 sigma of the prescribed mean.
"""
import itertools
import math
import warnings

import numpy as np
from scipy import integrate

import gstools as gs

from ..core import R, generic_values
from ..oracles import closed_forms as cf
from ..oracles import geometry as og

LEVEL = "exploration"
warnings.simplefilter("ignore")

ANIS = {1: [], 2: [0.5], 3: [0.5, 0.75]}
ANG = {1: [], 2: [0.6], 3: [0.6, -0.3, 0.4]}
DEFAULT_OPTS = {"Stable": {"alpha": 1.5}, "Matern": {"nu": 1.0}, "Integral": {"nu": 1.0}, "Rational": {"alpha": 1.0}, "SuperSpherical": None, "JBessel": None, "TPLSimple": None, "TPLGaussian": {"hurst": 0.5}, "TPLExponential": {"hurst": 0.4}, "TPLStable": {"hurst": 0.5, "alpha": 1.5}}
ALT_OPTS = {"Stable": {"alpha": 0.8}, "Matern": {"nu": 2.5}, "Integral": {"nu": 3.0}, "Rational": {"alpha": 3.0}, "TPLGaussian": {"hurst": 0.3, "len_low": 0.3}, "TPLStable": {"hurst": 0.3, "alpha": 1.0}}


def opts_for(cls, d, alt=False):
    if alt and cls in ALT_OPTS:
        return dict(ALT_OPTS[cls])
    o = DEFAULT_OPTS.get(cls, {})
    if o is None:
        return {"SuperSpherical": {"nu": (d - 1) / 2 + 1.0}, "JBessel": {"nu": d / 2 + 0.5}, "TPLSimple": {"nu": (d + 1) / 2 + 1.0}}[cls]
    return dict(o)


def make_model(cfg):
    d = cfg["dim"]
    kw = dict(dim=d, var=cfg.get("var", 1.6), len_scale=cfg.get("len_scale", 2.0), nugget=cfg.get("nugget", 0.0))
    if cfg.get("aniso") and d > 1:
        kw.update(anis=_anis(cfg), angles=_ang(cfg))
    kw.update(cfg["opts"])
    return getattr(gs, cfg["cls"])(**kw)


def _anis(cfg):
    return list(cfg.get("anis") or ANIS[cfg["dim"]])


def _ang(cfg):
    return list(cfg.get("angles") or ANG[cfg["dim"]])


def iso(cfg, x):
    d = cfg["dim"]
    if cfg.get("aniso") and d > 1:
        return og.isometrize(d, _ang(cfg), _anis(cfg), x)
    return np.asarray(x, dtype=float).reshape(d, -1)


def lag_lattice(cfg):
    """lag vectors: along e_1, the diagonal and every (rotated, anisotropy-scaled) main axis"""
    d, ls = cfg["dim"], cfg.get("len_scale", 2.0)
    t = np.array([0.0, 0.125, 0.25, 0.5, 1.0, 2.0, 4.0]) * ls
    lags = [np.outer(np.eye(d)[0], t)]
    if d > 1:
        lags.append(np.outer(np.ones(d) / math.sqrt(d), t))
        Rm = og.rotation(d, _ang(cfg)) if cfg.get("aniso") else np.eye(d)
        sc = [1.0] + (_anis(cfg) if cfg.get("aniso") else [1.0] * (d - 1))
        for i in range(d):
            lags.append(np.outer(Rm[:, i] * sc[i], t))
    return np.concatenate(lags, axis=1)


def case_structure(case):
    """exact per execution: field == documented mode sum with the oracle's coordinate transform"""
    r = R()
    cfg = case["cfg"]
    d, N, seed = cfg["dim"], cfg["mode_no"], case["seed"]
    m = make_model(cfg)
    gen = cfg["gen"]
    extra = {"cls": cfg["cls"], "dim": d, "gen": gen, "aniso": bool(cfg.get("aniso")), "sampling": cfg.get("sampling", "auto")}
    rng = np.random.RandomState(5)
    x = rng.uniform(-8, 8, size=(d, 9))
    ax = [np.array([0.0, 1.5, 4.0]), np.array([-1.0, 2.0]), np.array([0.5, 3.5])][:d]
    if gen == "RandMeth":
        srf = gs.SRF(m, seed=seed, mode_no=N, sampling=cfg.get("sampling", "auto"), mean=cfg.get("mean", 0.0))
        out = np.array(srf(x), dtype=float)
        g = srf.generator
        k, z1, z2 = np.array(g._cov_sample), np.array(g._z_1), np.array(g._z_2)
        r.eq("sample arrays have mode_no entries", (k.shape, z1.shape, z2.shape), ((d, N), (N,), (N,)), **extra)
        ph = k.T @ iso(cfg, x)
        smooth = math.sqrt(m.var / N) * (z1 @ np.cos(ph) + z2 @ np.sin(ph))
        if m.nugget > 0:
            nonug = np.array(g(m.isometrize(x), add_nugget=False))
            r.close("field without nugget == sqrt(var/N) sum(z1 cos(k.Tx) + z2 sin(k.Tx))", nonug, smooth, rtol=1e-10, atol=1e-11, **extra)
            xi = (out - cfg.get("mean", 0.0) - nonug) / math.sqrt(m.nugget)
            r.true("nugget part is finite noise", bool(np.all(np.isfinite(xi))), **extra)
            return r.done(outcome=[round(float(v), 9) for v in out[:3]])
        r.close("field == mean + sqrt(var/N) sum(z1 cos(k.Tx) + z2 sin(k.Tx))", out, cfg.get("mean", 0.0) + smooth, rtol=1e-10, atol=1e-11, **extra)
        gpts = np.array([a.ravel() for a in np.meshgrid(*ax, indexing="ij")])
        ph = k.T @ iso(cfg, gpts)
        r.close("structured field == mode sum at the grid points", np.array(srf.structured(ax)).ravel(), cfg.get("mean", 0.0) + math.sqrt(m.var / N) * (z1 @ np.cos(ph) + z2 @ np.sin(ph)), rtol=1e-10, atol=1e-11, **extra)
        r.close("unstructured() == __call__", np.array(srf.unstructured(x)), out, rtol=0, atol=0, **extra)
    else:  # Fourier
        per = cfg["period"][:d]
        mo = cfg["mode_no"]
        srf = gs.SRF(m, generator="Fourier", period=per, mode_no=mo, seed=seed)
        out = np.array(srf(x), dtype=float)
        g = srf.generator
        mo = [int(v) for v in (mo if isinstance(mo, list) else [mo] * d)][:d]
        anis = [1.0] + (ANIS[d] if cfg.get("aniso") else [1.0] * (d - 1))
        dk = 2 * math.pi / np.array(per, dtype=float) * np.array(anis)
        axes = [(np.arange(n) - n / 2) * dk[i] for i, n in enumerate(mo)]
        modes = np.array([a.ravel() for a in np.meshgrid(*axes, indexing="ij")])
        r.close("Fourier modes == integer multiples of delta_k = 2 pi / period * [1, anis]", np.array(g.modes), modes, rtol=1e-12, atol=1e-13, **extra)
        kn = np.linalg.norm(modes, axis=0)
        w = np.sqrt(m.var * np.asarray(m.spectral_density(kn), dtype=float) * np.prod(dk))
        z1, z2 = np.array(g._z_1), np.array(g._z_2)
        ph = modes.T @ iso(cfg, x)
        r.close("Fourier field == sum sqrt(S(|k|) prod(delta_k)) (z1 cos(k.Tx) + z2 sin(k.Tx))", out, (w * z1) @ np.cos(ph) + (w * z2) @ np.sin(ph), rtol=1e-9, atol=1e-10, **extra)
    return r.done(outcome=[round(float(v), 9) for v in out[:3]])


def case_ensemble(case):
    """complete seed window for one configuration: laws of the raw draws and the covariance"""
    r = R()
    cfg = case["cfg"]
    d, N, S0, S = cfg["dim"], cfg["mode_no"], case["seed0"], case["nseeds"]
    m = make_model(cfg)
    samp = cfg.get("sampling", "auto")
    extra = {"cls": cfg["cls"], "dim": d, "N": N, "sampling": samp, "aniso": bool(cfg.get("aniso")), "inversion": bool(samp == "inversion" or (samp == "auto" and m.has_ppf)), "numerical_spectrum": cfg["cls"] not in {"Gaussian", "Exponential", "Matern", "Integral", "HyperSpherical", "JBessel", "TPLGaussian", "TPLExponential"}}
    lags = lag_lattice(cfg)
    Tl = iso(cfg, lags)
    Ctrue = np.asarray(m.covariance(np.linalg.norm(Tl, axis=0)), dtype=float)
    Chat = np.empty((S, lags.shape[1]))
    Z1, Z2, K = [], [], []
    x0 = np.array([[0.3], [1.1], [-0.7]])[:d]
    u0 = np.empty(S)
    for i, s in enumerate(range(S0, S0 + S)):
        g = gs.field.generator.RandMeth(m, mode_no=N, seed=s, sampling=samp)
        k = np.array(g._cov_sample)
        Chat[i] = m.var / N * np.cos(k.T @ Tl).sum(axis=0)
        Z1.append(np.array(g._z_1))
        Z2.append(np.array(g._z_2))
        K.append(k)
        u0[i] = float(g(iso(cfg, x0), add_nugget=False)[0])
    Z1, Z2, K = np.concatenate(Z1), np.concatenate(Z2), np.concatenate(K, axis=1)
    n = Z1.size
    # (2) amplitude law
    for name, z in (("z_1", Z1), ("z_2", Z2)):
        r.true("amplitudes: mean within 6 sigma of 0", abs(z.mean()) <= 6 / math.sqrt(n), info=float(z.mean()), which=name, **extra)
        r.true("amplitudes: variance within 6 sigma of 1", abs(z.var() - 1) <= 6 * math.sqrt(2.0 / n), info=float(z.var()), which=name, **extra)
        r.true("amplitudes: fourth moment within 6 sigma of 3", abs((z**4).mean() - 3) <= 6 * math.sqrt(96.0 / n), info=float((z**4).mean()), which=name, **extra)
        r.true("amplitudes: lag-1 correlation within 6 sigma of 0", abs(np.mean(z[1:] * z[:-1])) <= 6 / math.sqrt(n - 1), info=float(np.mean(z[1:] * z[:-1])), which=name, **extra)
    r.true("amplitudes: corr(z_1, z_2) within 6 sigma of 0", abs(np.mean(Z1 * Z2)) <= 6 / math.sqrt(n), info=float(np.mean(Z1 * Z2)), **extra)
    # (3) direction law
    rad = np.linalg.norm(K, axis=0)
    U = K / np.where(rad > 0, rad, 1.0)
    for i in range(d):
        r.true("directions: mean within 6 sigma of 0", abs(U[i].mean()) <= 6 * math.sqrt(1.0 / d / n), info=float(U[i].mean()), comp=i, **extra)
        for j in range(i, d):
            tgt = 1.0 / d if i == j else 0.0
            v = float(np.mean(U[i] * U[j]))
            var_ij = (3.0 / (d * (d + 2)) - 1.0 / d**2) if i == j else 1.0 / (d * (d + 2))
            var_ij = max(var_ij, 0.0)
            r.true("directions: second moments within 6 sigma of I/d", abs(v - tgt) <= 6 * math.sqrt(var_ij / n) + 1e-12, info=v, comp=[i, j], **extra)
    if d > 1:
        rr = np.log(rad + 1e-300)
        rr = (rr - rr.mean()) / (rr.std() + 1e-300)
        for i in range(d):
            c = float(np.mean(rr * (U[i] ** 2 - 1.0 / d)))
            sd = math.sqrt(max(3.0 / (d * (d + 2)) - 1.0 / d**2, 1e-12) / n)
            r.true("directions independent of the radius (6 sigma)", abs(c) <= 6 * sd, info=c, comp=i, **extra)
    # radii: inversion sampling is iid -> DKW bound against the integrated radial pdf
    if extra["inversion"]:
        unit = 1.0 / m.len_rescaled
        qs = np.quantile(rad, [0.05, 0.2, 0.4, 0.6, 0.8, 0.95])
        cdf_ref = []
        for q in qs:
            pts = sorted(p for p in (0.1 * unit, unit, 5 * unit) if p < q)
            cdf_ref.append(integrate.quad(lambda kk: float(m.spectral_rad_pdf(np.array([kk]))[0]), 0, q, limit=400, points=pts, epsabs=1e-11, epsrel=1e-10)[0])
        ecdf = np.array([(rad <= q).mean() for q in qs])
        eps = math.sqrt(math.log(2 / 1e-9) / (2 * n))
        r.true("radii (inversion sampling): empirical cdf within the DKW bound of the integrated radial pdf", bool(np.all(np.abs(ecdf - np.array(cdf_ref)) <= eps + 1e-6)), info={"ecdf": ecdf.tolist(), "cdf": cdf_ref, "eps": eps}, **extra)
    # (4) covariance
    err = Chat - Ctrue[None, :]
    rms = np.sqrt((err**2).mean(axis=0))
    e = math.sqrt(N) * rms / m.var
    emax = float(e.max())
    r.true("covariance error at Monte-Carlo rate: sqrt(N) RMS_s |C_s(h) - C(h)| / var <= 3", emax <= 3.0, info={"e_max": emax, "lag_index": int(e.argmax()), "C": float(Ctrue[e.argmax()]), "mean_Chat": float(Chat[:, e.argmax()].mean())}, **extra)
    r.close("pointwise variance == model variance (every seed)", Chat[:, 0], np.full(S, m.var), rtol=1e-12, **extra)
    if extra["inversion"]:
        bias = Chat.mean(axis=0) - Ctrue
        sd = Chat.std(axis=0, ddof=1) / math.sqrt(S) + 1e-12 * m.var
        r.true("covariance unbiased under inversion sampling (6 sigma over the seed window)", bool(np.all(np.abs(bias) <= 6 * sd)), info={"max_bias_in_sigma": float(np.max(np.abs(bias) / sd))}, **extra)
    if d > 1 and cfg.get("aniso"):
        # same value along e_1-direction of the model and along every scaled main axis
        nt = 7
        base = Chat.mean(axis=0)[2 * nt : 3 * nt]
        for i in range(1, d):
            r.close("covariance along main axis i at lag len*anis_i*t equals the one along axis 0 at len*t (ensemble mean, 6 sigma)", Chat.mean(axis=0)[(2 + i) * nt : (3 + i) * nt], base, rtol=0, atol=6 * 1.5 * m.var / math.sqrt(N * S) + 1e-12, axis=i, **extra)
    # (5) mean
    r.true("ensemble mean of the field within 6 sigma of 0", abs(u0.mean()) <= 6 * math.sqrt(m.var / S), info=float(u0.mean()), **extra)
    r.true("ensemble variance of the field within 6 sigma of var", abs(u0.var() - m.var) <= 6 * m.var * math.sqrt(2.0 / S), info=float(u0.var()), **extra)
    return r.done(outcome=[round(emax, 3)], sub={"seedings": S, "e_max_x1000": int(emax * 1000)})


def case_nugget(case):
    """pointwise variance includes the nugget: law of the nugget noise over the seed window"""
    r = R()
    cfg = case["cfg"]
    d = cfg["dim"]
    m = make_model(cfg)
    x = np.random.RandomState(8).uniform(-5, 5, size=(d, 40))
    xs = []
    for s in range(case["seed0"], case["seed0"] + case["nseeds"]):
        srf = gs.SRF(m, seed=s, mode_no=16)
        out = np.array(srf(x), dtype=float)
        nonug = np.array(srf.generator(m.isometrize(x), add_nugget=False))
        xs.append((out - nonug) / math.sqrt(m.nugget))
    xi = np.concatenate(xs)
    n = xi.size
    extra = {"cls": cfg["cls"], "dim": d}
    r.true("nugget noise: mean within 6 sigma of 0", abs(xi.mean()) <= 6 / math.sqrt(n), info=float(xi.mean()), **extra)
    r.true("nugget noise: variance within 6 sigma of 1 (pointwise variance = var + nugget)", abs(xi.var() - 1) <= 6 * math.sqrt(2.0 / n), info=float(xi.var()), **extra)
    r.true("nugget noise: fourth moment within 6 sigma of 3", abs((xi**4).mean() - 3) <= 6 * math.sqrt(96.0 / n), info=float((xi**4).mean()), **extra)
    r.true("nugget noise: uncorrelated between neighbouring points", abs(np.mean(xi[1:] * xi[:-1])) <= 6 / math.sqrt(n - 1), info=float(np.mean(xi[1:] * xi[:-1])), **extra)
    # the noise is drawn independently of the mode amplitudes and phases (entry by entry, too)
    zz = []
    for s in range(case["seed0"], case["seed0"] + case["nseeds"]):
        g_ = gs.SRF(m, seed=s, mode_no=16).generator
        zz.append(np.concatenate([np.array(g_._z_1)[:16], np.array(g_._z_2)[:16]]))
    zz = np.array(zz)  # (seeds, 32)
    xj = np.array(xs)[:, :16]
    for nm_, blk in (("z_1", zz[:, :16]), ("z_2", zz[:, 16:])):
        cj = float(np.mean(xj * blk))
        r.true(f"nugget noise of point j uncorrelated with the amplitude {nm_}[j] of the same seed", abs(cj) <= 6 / math.sqrt(xj.size), info=cj, **extra)
    sm = np.concatenate([np.array(gs.SRF(m, seed=s, mode_no=16).generator(m.isometrize(x), add_nugget=False)) for s in range(case["seed0"], case["seed0"] + 8)])
    r.true("nugget noise uncorrelated with the smooth part", abs(np.mean(xi[: sm.size] * sm)) <= 6 * math.sqrt(m.var / sm.size), info=float(np.mean(xi[: sm.size] * sm)), **extra)
    return r.done(outcome=[round(float(xi.var()), 5)])


def case_rate(case):
    """error shrinks with the number of modes"""
    r = R()
    cfg = dict(case["cfg"])
    S0, S = case["seed0"], case["nseeds"]
    m = make_model(cfg)
    lags = lag_lattice(cfg)
    Tl = iso(cfg, lags)
    Ctrue = np.asarray(m.covariance(np.linalg.norm(Tl, axis=0)), dtype=float)
    rms = {}
    for N in case["Ns"]:
        errs = []
        for s in range(S0, S0 + S):
            g = gs.field.generator.RandMeth(m, mode_no=N, seed=s, sampling=cfg.get("sampling", "auto"))
            errs.append(m.var / N * np.cos(np.array(g._cov_sample).T @ Tl).sum(axis=0) - Ctrue)
        rms[N] = float(np.sqrt((np.array(errs) ** 2).mean()))
    Ns = case["Ns"]
    extra = {"cls": cfg["cls"], "dim": cfg["dim"], "sampling": cfg.get("sampling", "auto"), "numerical_spectrum": cfg["cls"] not in {"Gaussian", "Exponential", "Matern", "Integral", "HyperSpherical", "JBessel", "TPLGaussian", "TPLExponential"}}
    for a, b in zip(Ns[:-1], Ns[1:]):
        r.true("covariance error shrinks when the mode number grows (RMS(4N) <= 0.75 RMS(N))", rms[b] <= 0.75 * rms[a], info={"N": a, "rms": rms[a], "N4": b, "rms4": rms[b]}, N4=b, **extra)
    return r.done(outcome=[round(v, 5) for v in rms.values()])


def case_fourier(case):
    """Poisson summation: mode sum vs periodised covariance; truncation decreases with mode_no"""
    r = R()
    cfg = case["cfg"]
    d = cfg["dim"]
    m = make_model(cfg)
    per = np.array(cfg["period"][:d], dtype=float)
    anis = np.array([1.0] + (ANIS[d] if cfg.get("aniso") else [1.0] * (d - 1)))
    extra = {"cls": cfg["cls"], "dim": d, "aniso": bool(cfg.get("aniso"))}
    rng = np.random.RandomState(3)
    H = np.concatenate([np.zeros((d, 1)), rng.uniform(-0.5, 0.5, size=(d, 8)) * (per / anis)[:, None]], axis=1)  # lags in isotropic coords
    # periodised covariance in isotropic coordinates: period per axis = period_i / anis_i
    P = per / anis
    imgs = np.array(list(itertools.product(range(-3, 4), repeat=d))).T * P[:, None]
    CP = np.array([float(np.sum(m.covariance(np.linalg.norm(H[:, [i]] + imgs, axis=0)))) for i in range(H.shape[1])])
    D0 = []
    for mult in (1, 2):
        mo = [int(v) * mult for v in cfg["mode_no"][:d]]
        dk = 2 * math.pi / per * anis
        axes = [(np.arange(n) - n / 2) * dk[i] for i, n in enumerate(mo)]
        modes = np.array([a.ravel() for a in np.meshgrid(*axes, indexing="ij")])
        w2 = m.var * np.asarray(m.spectral_density(np.linalg.norm(modes, axis=0)), dtype=float) * np.prod(dk)  # documented: spectrum = var * spectral density
        Tsum = (w2[:, None] * np.cos(modes.T @ H)).sum(axis=0)
        # the generator's own weights
        g = gs.field.generator.Fourier(m, period=list(per), mode_no=mo, seed=1)
        r.close("generator weights^2 == spectrum(|k|) prod(delta_k)", np.array(g._spectrum_factor) ** 2, w2, rtol=1e-10, atol=1e-14, mode_mult=mult, **extra)
        Dh = CP - Tsum
        tol = 1e-6 * m.var
        r.true("pointwise variance of the Fourier field <= periodised model variance (spectral mass outside the mode box >= 0)", Dh[0] >= -tol, info=float(Dh[0]), mode_mult=mult, **extra)
        r.true("|C_periodised(h) - mode sum(h)| <= spectral mass outside the mode box", bool(np.all(np.abs(Dh) <= Dh[0] + tol)), info={"D0": float(Dh[0]), "maxD": float(np.abs(Dh).max())}, mode_mult=mult, **extra)
        D0.append(float(Dh[0]))
    r.true("discretisation error decreases when mode_no doubles at fixed period", D0[1] <= D0[0] + 1e-9 * m.var, info=D0, **extra)
    return r.done(outcome=[round(v, 8) for v in D0])


def case_dimchange(case):
    """a model whose dimension was changed after construction generates the fields of the model
    constructed in that dimension (differential oracle: freshly built object)"""
    r = R()
    cfg = case["cfg"]
    d, d0, seed = cfg["dim"], case["dim_from"], case["seed"]
    fresh = make_model(cfg)
    kw = dict(dim=d0, var=cfg.get("var", 1.6), len_scale=cfg.get("len_scale", 2.0))
    kw.update(case.get("opt_from") or cfg["opts"])
    m = getattr(gs, cfg["cls"])(**kw)
    # warm every lazily built helper in the old setting, then change the model in place
    m.spectrum(np.array([0.3, 1.0]))
    gs.field.generator.RandMeth(m, mode_no=8, seed=1)
    # a field object that exists (and was used) before the change and keeps following its model
    if cfg["gen"] == "RandMeth":
        old_srf = gs.SRF(m, seed=seed, mode_no=cfg["mode_no"])
    else:
        old_srf = gs.SRF(m, generator="Fourier", period=cfg["period"][:d0], mode_no=cfg["mode_no"][:d0], seed=seed)
    old_srf(np.random.RandomState(6).uniform(-3, 3, size=(d0, 3)))
    if case.get("opt_from"):
        for k_, v_ in cfg["opts"].items():
            setattr(m, k_, v_)
        m.var = cfg.get("var", 1.6)  # (TPL models keep the intensity, not the variance, when a shape parameter changes)
    else:
        m.dim = d
    if cfg.get("aniso") and d > 1:
        m.anis, m.angles = ANIS[d], ANG[d]
    extra = {"cls": cfg["cls"], "dim": d, "dim_from": d0, "gen": cfg["gen"], "opt_change": bool(case.get("opt_from"))}
    r.true("model with changed dimension == model built in that dimension", m == fresh, **extra)
    x = np.random.RandomState(5).uniform(-8, 8, size=(d, 9))
    kk = np.array([0.0, 0.2, 1.0, 3.0])
    r.close("spectrum of the changed model == spectrum of the fresh model", m.spectrum(kk), fresh.spectrum(kk), rtol=1e-10, atol=1e-14, **extra)
    if cfg["gen"] == "RandMeth":
        a = gs.SRF(m, seed=seed, mode_no=cfg["mode_no"])
        b = gs.SRF(fresh, seed=seed, mode_no=cfg["mode_no"])
        r.close("wave vectors of the changed model == those of the fresh model (same seed)", np.array(a.generator._cov_sample), np.array(b.generator._cov_sample), rtol=1e-10, atol=1e-12, **extra)
    else:
        per = cfg["period"][:d]
        a = gs.SRF(m, generator="Fourier", period=per, mode_no=cfg["mode_no"][:d], seed=seed)
        b = gs.SRF(fresh, generator="Fourier", period=per, mode_no=cfg["mode_no"][:d], seed=seed)
        r.close("Fourier weights of the changed model == those of the fresh model", np.array(a.generator._spectrum_factor), np.array(b.generator._spectrum_factor), rtol=1e-10, atol=1e-14, **extra)
    fa, fb = np.array(a(x)), np.array(b(x))
    r.close("field of the changed model == field of the fresh model (same seed)", fa, fb, rtol=1e-9, atol=1e-10, **extra)
    if d == d0 or cfg["gen"] == "RandMeth":
        if cfg["gen"] == "Fourier":
            fo = np.array(old_srf(x, seed=seed))
        else:
            fo = np.array(old_srf(x, seed=seed))
        r.close("field object created before the change follows its model: field == fresh model's field (same seed)", fo, fb, rtol=1e-9, atol=1e-10, **extra)
    r.true("changed model != model before the change", m != getattr(gs, cfg["cls"])(**kw), **extra)
    return r.done(outcome=[round(float(v), 8) for v in fb[:2]])


def case_upscaling(case):
    """point volumes: the field is the point-scale field times sqrt(upscaled variance / sill) (documented
    coarse-graining factor; 1 without scaling), for models with and without nugget"""
    r = R()
    d, nug, up, mean = case["dim"], case["nugget"], case["upscaling"], case["mean"]
    m = getattr(gs, case["cls"])(dim=d, var=1.6, len_scale=2.0, nugget=nug)
    x = np.random.RandomState(5).uniform(-8, 8, size=(d, 7))
    extra = {"cls": case["cls"], "dim": d, "nugget": nug, "upscaling": up}
    base = np.array(gs.SRF(m, seed=case["seed"], mode_no=16, mean=mean, upscaling=up)(x), dtype=float)
    for pv in (0.25, 3.0, np.array([0.1, 0.5, 1.0, 2.0, 4.0, 0.0, 9.0])):
        with warnings.catch_warnings():
            warnings.simplefilter("ignore")
            f = np.array(gs.SRF(m, seed=case["seed"], mode_no=16, mean=mean, upscaling=up)(x, point_volumes=pv), dtype=float)
        if up == "no_scaling":
            fac = np.ones(7)
        else:
            lam = np.asarray(pv, dtype=float) ** (1.0 / d) * np.ones(7)
            fac = (2.0**2 / (2.0**2 + lam**2 / 4)) ** (d / 2.0)
        r.close("field with point volumes == mean + (point-scale field - mean) * sqrt(documented variance factor)", f, mean + (base - mean) * np.sqrt(fac), rtol=1e-10, atol=1e-12, pv=np.asarray(pv).tolist(), **extra)
    return r.done(outcome=[round(float(v), 8) for v in base[:2]])


GROUPS = {"upscaling": case_upscaling, "dimchange": case_dimchange, "nugget": case_nugget, "structure": case_structure, "ensemble": case_ensemble, "rate": case_rate, "fourier": case_fourier}


def pairs():
    out = []
    for cls in cf.SHIPPED:
        for d in cf.valid_dims(cls):
            out.append((cls, d))
    return out


def run(chk):
    tier, seed = chk.tier, chk.seed
    S = 32 if tier == "quick" else 256
    s0 = seed * S
    stc, enc, rc, fc = [], [], [], []
    for cls, d in pairs():
        for alt in (False, True):
            if alt and (cls not in ALT_OPTS or tier == "quick" and d != 2):
                continue
            opts = opts_for(cls, d, alt)
            for aniso in (False, True):
                if aniso and d == 1:
                    continue
                base = {"cls": cls, "dim": d, "opts": opts, "aniso": aniso, "gen": "RandMeth"}
                for s in (s0, s0 + 1, 19970221):
                    stc.append({"cfg": dict(base, mode_no=24), "seed": s})
                stc.append({"cfg": dict(base, mode_no=24, nugget=0.4, mean=0.7), "seed": s0})
                if aniso and tier == "quick" and cls not in ("Gaussian", "Exponential", "Stable", "Spherical"):
                    continue
                for N in ((100, 1000) if tier == "quick" else (100, 400, 1000, 1600)):
                    slow = cls in ("TPLStable",) or (cls in cf.TPL and N >= 1000)
                    if tier == "quick" and ((aniso and N != 100) or (alt and N != 100) or (slow and N != 100)):
                        continue
                    enc.append({"cfg": dict(base, mode_no=N), "seed0": s0, "nseeds": S if not (slow and tier == "quick") else 16})
    # rotations about one axis only and partly equal anisotropy ratios (shortcuts for "unrotated" / "isotropic" models)
    for cls in ("Gaussian", "Exponential"):
        for ang in ([0.0, 0.0, 1.1], [0.0, 0.9, 0.0], [0.7, 0.0, 0.0], [0.0, 0.0, math.pi / 2]):
            for anis in ([1.0, 0.1], [0.5, 0.5], [1.0, 1.0], [0.3, 1.0]):
                stc.append({"cfg": {"cls": cls, "dim": 3, "opts": {}, "aniso": True, "gen": "RandMeth", "mode_no": 12, "angles": ang, "anis": anis}, "seed": s0})
        for ang in ([0.8],):
            for anis in ([1.0], [0.4]):
                stc.append({"cfg": {"cls": cls, "dim": 2, "opts": {}, "aniso": True, "gen": "RandMeth", "mode_no": 12, "angles": ang, "anis": anis}, "seed": s0})
    # forced sampling strategies
    for cls, d, ls in (("Gaussian", 1, 2.0), ("Gaussian", 2, 0.7), ("Gaussian", 3, 2.0), ("Exponential", 1, 0.7), ("Exponential", 2, 2.0), ("Exponential", 3, 3.0), ("Exponential", 3, 0.5)):
        enc.append({"cfg": {"cls": cls, "dim": d, "opts": {}, "aniso": False, "gen": "RandMeth", "mode_no": 50, "sampling": "inversion", "len_scale": ls}, "seed0": s0, "nseeds": S})
        enc.append({"cfg": {"cls": cls, "dim": d, "opts": {}, "aniso": False, "gen": "RandMeth", "mode_no": 100, "sampling": "mcmc", "len_scale": ls}, "seed0": s0, "nseeds": S})
        stc.append({"cfg": {"cls": cls, "dim": d, "opts": {}, "aniso": True, "gen": "RandMeth", "mode_no": 16, "sampling": "inversion", "len_scale": ls}, "seed": s0})
    for cls, d in (("Gaussian", 1), ("Gaussian", 2), ("Exponential", 2), ("Gaussian", 3), ("Matern", 2), ("Stable", 1), ("Spherical", 2), ("Exponential", 3), ("HyperSpherical", 1), ("HyperSpherical", 2), ("HyperSpherical", 3), ("Integral", 2)):  # (heavy-tailed / oscillating covariances are left out: the periodised reference sums 7^d images)
        for aniso in (False, True):
            if aniso and d == 1:
                continue
            cfg = {"cls": cls, "dim": d, "opts": opts_for(cls, d), "aniso": aniso, "gen": "Fourier", "period": [12.0, 9.0, 7.0], "mode_no": [8, 6, 4][:d], "len_scale": 1.5}
            for s in (s0, s0 + 1):
                stc.append({"cfg": cfg, "seed": s})
            fc.append({"cfg": cfg})
    # TPL models (variance = intensity * factor) under the Fourier generator
    for cls, d, alt in (("TPLGaussian", 2, True), ("TPLStable", 1, False), ("TPLExponential", 3, False)):
        cfg = {"cls": cls, "dim": d, "opts": opts_for(cls, d, alt), "aniso": d == 2, "gen": "Fourier", "period": [12.0, 9.0, 7.0], "mode_no": [8, 6, 4][:d], "len_scale": 1.5}
        stc.append({"cfg": cfg, "seed": s0})
        fc.append({"cfg": cfg})
    # dimension changed after construction
    dcs = []
    for cls, d in pairs():
        for d0 in cf.valid_dims(cls):
            if d0 == d or (tier == "quick" and abs(d0 - d) != 1):
                continue
            for gen in ("RandMeth", "Fourier"):
                if tier == "quick" and gen == "Fourier" and cls not in ("Gaussian", "Cubic", "Spherical", "Matern", "TPLGaussian", "Rational"):
                    continue
                cfg = {"cls": cls, "dim": d, "opts": opts_for(cls, max(d, d0)), "aniso": d > 1 and d0 > d, "gen": gen, "mode_no": 16 if gen == "RandMeth" else [6, 4, 4], "period": [12.0, 9.0, 7.0], "len_scale": 1.5}
                dcs.append({"cfg": cfg, "dim_from": d0, "seed": s0 + 3})
    # optional argument changed in place (same dimension)
    for cls, d in pairs():
        if cls not in ALT_OPTS or (tier == "quick" and d != 2):
            continue
        for gen in ("RandMeth", "Fourier"):
            cfg = {"cls": cls, "dim": d, "opts": opts_for(cls, d, True), "aniso": False, "gen": gen, "mode_no": 16 if gen == "RandMeth" else [6, 4, 4], "period": [12.0, 9.0, 7.0], "len_scale": 1.5}
            dcs.append({"cfg": cfg, "dim_from": d, "seed": s0 + 3, "opt_from": opts_for(cls, d, False)})
    uc = [{"cls": c, "dim": d, "nugget": ng, "upscaling": up, "mean": mn, "seed": s0 + 2} for c in ("Gaussian", "Exponential") for d in (1, 2, 3) for ng in (0.0, 0.5) for up in ("no_scaling", "coarse_graining") for mn in (0.0, 0.7)]
    chk.run("upscaling", case_upscaling, uc, rule="model x dim x nugget {0, .5} x upscaling {no_scaling, coarse_graining} x mean x point volumes {scalar, array incl. 0}: field == mean + (point-scale field - mean) sqrt(documented variance factor)", chunk=4)
    chk.run("dimchange", case_dimchange, dcs, rule="every (class, dim_from -> dim) with both dimensions valid (quick: neighbouring dimensions) x generator: the model is built and used in dim_from, its dim is set in place; spectrum, samples and field equal those of the model built in the target dimension with the same seed; likewise for an optional argument changed in place, and for a field object that was created and used before the change", chunk=2)
    chk.run("structure", case_structure, stc, rule="every valid (class, dim) x {default, alternative shape parameter} x {isotropic, anisotropic+rotated} x seeds (+ nugget / mean configuration; forced inversion; Fourier generator): returned field == documented mode sum evaluated from the sample arrays with the oracle's coordinate transform", chunk=4)
    chk.run("ensemble", case_ensemble, enc, rule=f"complete seed window [{s0}, {s0 + S}) per configuration x mode numbers (100, 1000 = library default; thorough 100..1600) x sampling (auto / forced inversion / forced mcmc): laws of amplitudes and directions (6 sigma), radii under inversion (DKW at 1e-9), exact conditional covariance on the lag lattice: normalised error <= 3, unbiasedness, anisotropy scaling, ensemble mean and variance", chunk=1)
    nc = [{"cfg": {"cls": c, "dim": d, "opts": opts_for(c, d), "aniso": a, "gen": "RandMeth", "nugget": 0.4}, "seed0": s0, "nseeds": S} for c, d, a in (("Gaussian", 1, False), ("Exponential", 2, True), ("Gaussian", 3, True))]
    chk.run("nugget", case_nugget, nc, rule="models with a nugget: law of the nugget noise (difference between the field and its smooth part) over the complete seed window", chunk=1, min_outcomes=1)
    if tier != "quick":
        for cls, d in (("Gaussian", 2), ("Exponential", 3), ("Matern", 2), ("Stable", 2)):
            rc.append({"cfg": {"cls": cls, "dim": d, "opts": opts_for(cls, d), "aniso": False, "gen": "RandMeth"}, "seed0": s0, "nseeds": S, "Ns": [100, 400, 1600]})
        chk.run("rate", case_rate, rc, rule="RMS covariance error over the seed window at N, 4N, 16N: must shrink by at least 25 % per quadrupling", chunk=1, min_outcomes=1)
    chk.run("fourier", case_fourier, fc, rule="Fourier generator: weights, Poisson-summation inequalities between the finite mode sum and the periodised model covariance at 9 lags, truncation term decreasing when mode_no doubles", chunk=1)
    chk.assume("the law of the raw draws is accepted on a complete but finite seed window with 6-sigma regions (false-alarm probability per comparison < 2e-9; a sampler whose bias is below the stated rate constant passes); everything else is exact per execution")
    chk.assume("model covariance and spectrum used as reference are decided by C03 / C04; coordinate transforms by the geometry oracle (C12)")
