"""C02 - shipped covariance models are positive semi-definite where they claim validity.

Enumerated: class x every dimension accepted without the invalid-dimension warning (1-3, and 4
as space + time) x optional arguments on a grid including both (dimension dependent) bounds
x length scales relative to the lattice spacing x {isotropic, anisotropic + rotated, time
anisotropy, lat-lon} x point-set families (full lattices at spacings l/5, l/2, l; two-scale
clusters; all k-subsets (k <= 4) of a 3^d lattice; sphere grids with both poles and the date
line).  Oracles: (a) smallest eigenvalue of the covariance matrix; (b) sign of the independent
radial Fourier transform of the correlation on a wave-number grid (Bochner: decides *all*
point sets); (c) rho(0) = 1, |rho| <= 1; (d) plane-wave quadratic forms on the lattices.
Negative controls (invalid dimensions) must be detected by both routes on every run.
"""
import itertools
import math
import warnings

import numpy as np

import gstools as gs

from ..core import R, generic_values
from ..oracles import closed_forms as cf
from ..oracles import fourier as of

LEVEL = "exploration"
warnings.simplefilter("ignore")

SIZES = {"quick": {1: 12, 2: 8, 3: 4, 4: 3}, "thorough": {1: 24, 2: 12, 3: 6, 4: 4}}


def opt_grid(cls, d, tier):
    g = list(cf.opt_grid(cls, d, tier))
    if cls in ("TPLGaussian", "TPLExponential"):
        g += [{"hurst": 0.3, "len_low": 3.0}]  # lower cut-off larger than the length scale
    if cls == "TPLStable":
        g += [{"hurst": 0.3, "alpha": 1.0, "len_low": 3.0}]
    if cls == "JBessel" and tier != "quick":
        g += [{"nu": 50.0}]
    return g


def make_model(case, ls):
    cls, d, opts = case["cls"], case["dim"], case["opts"]
    C = getattr(gs, cls)
    geo = case["geo"]
    if geo == "latlon":
        return C(latlon=True, var=1.5, len_scale=ls, **opts)
    if geo == "time":
        return C(temporal=True, spatial_dim=d - 1, var=1.5, len_scale=ls, anis=[0.6, 1.4, 0.7][: d - 2] + [0.5], angles=[0.4, -0.3, 0.2][: (d - 1) * (d - 2) // 2], **opts)
    kw = {}
    if geo == "rescaled":  # non-default rescale factor (enters every length of the model, also the lower cut-off of TPL models)
        kw = dict(rescale=2.5)
    if geo == "aniso" and d > 1:
        kw = dict(anis=[0.6, 1.4, 0.8][: d - 1], angles=[0.4, -0.3, 0.7, 0.1, 0.2, -0.5][: d * (d - 1) // 2])
    return C(dim=d, var=1.5, len_scale=ls, **kw, **opts)


def cov_matrix(m, pos, geo):
    if geo == "latlon":
        from ..oracles import geometry as og

        lat, lon = pos
        z = og.great_circle(lat[:, None], lon[:, None], lat[None, :], lon[None, :])
        np.fill_diagonal(z, 0.0)
        return m.cov_yadrenko(z)
    n = pos.shape[1]
    diff = pos[:, :, None] - pos[:, None, :]
    return m.cov_spatial(diff.reshape(pos.shape[0], -1)).reshape(n, n)


def lattice(d, n, h):
    ax = [np.arange(n) * h] * d
    return np.array([g.ravel() for g in np.meshgrid(*ax, indexing="ij")])


def case_matrix(case):
    r = R()
    cls, d, geo, tier = case["cls"], case["dim"], case["geo"], case["tier"]
    extra = {"cls": cls, "dim": d, "geo": geo, "control": case.get("control", False)}
    n = SIZES[tier][d]
    worst = 0.0
    nsets = 0
    for ls in (0.3, 1.0, 3.0):
        m = make_model(case, ls if geo != "latlon" else ls * 0.5)
        sets = []
        if geo == "latlon":
            lats = [-90.0, -60.0, -20.0, 0.0, 35.0, 70.0, 90.0]
            lons = [-180.0, -120.0, -45.0, 0.0, 30.0, 100.0, 179.0, 180.0]
            grid = np.array(list(itertools.product(lats, lons))).T
            sets.append(("sphere grid with poles and date line", grid))
            k = np.arange(60)
            fib = np.array([np.rad2deg(np.arcsin(1 - 2 * (k + 0.5) / 60)), np.rad2deg((k * math.pi * (3 - math.sqrt(5))) % (2 * math.pi)) - 180.0])
            sets.append(("Fibonacci sphere points", fib))
        else:
            for frac in (0.2, 0.5, 1.0):
                sets.append((f"lattice spacing {frac} l", lattice(d, n, frac * ls)))
            base = lattice(d, 3, ls)
            cl = np.concatenate([base + 1e-3 * ls * np.arange(1, d + 1)[:, None] * s for s in (0.0, 1.0, 2.5)], axis=1)
            sets.append(("two-scale clusters", cl))
            if ls == 1.0:
                L3 = lattice(d, 3, ls)
                for k_ in (2, 3, 4):
                    combs = list(itertools.combinations(range(L3.shape[1]), k_))
                    step = max(1, len(combs) // (40 if tier == "quick" else 400))
                    for c in combs[::step]:
                        sets.append((f"{k_}-subset of the 3^d lattice", L3[:, list(c)]))
        for name, pos in sets:
            C = cov_matrix(m, pos, geo)
            ev = np.linalg.eigvalsh((C + C.T) / 2)
            tr = float(np.trace(C))
            nsets += 1
            worst = min(worst, float(ev[0]) / tr * C.shape[0])
            if not case.get("control"):
                r.true("covariance matrix has no negative eigenvalue beyond rounding", ev[0] >= -1e-10 * tr, info={"min_eig": float(ev[0]), "trace": tr, "n": C.shape[0]}, pointset=name, len_scale=ls, **extra)
                r.true("correlation at zero lag is 1 and never exceeds 1 in magnitude", bool(np.allclose(np.diag(C), m.var, rtol=1e-12) and np.all(np.abs(C) <= m.var * (1 + 1e-12))), info=float(np.abs(C).max() / m.var), pointset=name, len_scale=ls, **extra)
            # (d) plane-wave quadratic forms on the full lattices
            if geo != "latlon" and name.startswith("lattice") and not case.get("control"):
                for kk in (0.5, 2.0, 6.7, 8.1, 20.0):
                    kv = np.full(pos.shape[0], kk / ls / math.sqrt(pos.shape[0]))
                    for ph in (0.0, 0.7):
                        v = np.cos(kv @ pos + ph)
                        q = float(v @ C @ v)
                        r.true("plane-wave quadratic form v^T C v >= 0", q >= -1e-10 * tr * len(v), info=q, k=kk, pointset=name, len_scale=ls, **extra)
    return r.done(outcome=[cls, d, geo, str(case["opts"])], sub={"point_sets": nsets, "negative_found": int(worst < -1e-6)})


def case_spectrum(case):
    """Bochner: the d-dimensional radial Fourier transform of the correlation is non-negative"""
    r = R()
    cls, d, opts = case["cls"], case["dim"], case["opts"]
    extra = {"cls": cls, "dim": d, "control": case.get("control", False)}
    m = getattr(gs, cls)(dim=d, len_scale=1.0, **opts)
    unit = 1.0 / m.rescale
    f = lambda x: float(m.correlation(x))
    if cls == "JBessel" or (cls == "Rational" and 2 * opts["alpha"] <= d + 0.5) or (cls == "Integral" and opts["nu"] + 2 <= d + 0.5) or (cls == "Stable" and opts["alpha"] < 0.5):
        return r.done(skip="transform not absolutely convergent (JBessel: compact non-negative spectrum by construction, checked in C04)")
    rmax = of.find_rmax(f, d, unit, unit if cls in cf.COMPACT else None)
    if rmax is None:
        return r.done(skip="correlation tail too heavy for the quadrature range")
    S0 = of.rft(f, 0.0, d, rmax, unit)
    kls = [0.0, 0.3, 1.0, 2.0, 3.5, 5.0, 6.7, 8.1, 10.0, 15.0, 25.0, 40.0, 60.0]
    if d == 2 and (cls in cf.TPL or cls in ("Matern", "Integral")):
        kls = [0.0, 1.0, 3.5, 6.7, 10.0]
    smin = math.inf
    for kl in kls:
        S = of.rft(f, kl / unit, d, rmax, unit)
        smin = min(smin, S / S0)
        if not case.get("control"):
            r.true("radial Fourier transform of the correlation is non-negative", S >= -1e-9 * S0, info={"S": S, "S0": S0}, kl=kl, **extra)
    return r.done(outcome=[cls, d, str(opts)], sub={"negative_lobe_found": int(smin < -1e-4)})


def case_accept(case):
    """premise of the property: a model that is accepted without the invalid-dimension warning lives in
    a dimension where the class is valid (the effective dimension: 3 / 4 for lat-lon models)"""
    r = R()
    cls, route = case["cls"], case["route"]
    C = getattr(gs, cls)
    opts = cf.opt_grid(cls, 4, "quick")[0] if cf.opt_grid(cls, 4, "quick") else {}
    kw = dict(case["kw"])
    extra = {"cls": cls, "route": route, **{k: v for k, v in kw.items()}}
    with warnings.catch_warnings(record=True) as rec:
        warnings.simplefilter("always")
        try:
            if route == "init":
                m = C(len_scale=1.0, **kw, **opts)
            else:  # dimension set on an existing object
                d = kw.pop("dim")
                m = C(dim=1, len_scale=1.0, **kw, **opts)
                rec.clear()
                m.dim = d
        except ValueError as e:
            return r.done(outcome=["refused", cls, str(case["kw"])], skip="combination refused with ValueError: " + str(e)[:60])
    warned = any("not appropriate" in str(w.message) for w in rec)
    eff = int(m.dim)
    valid = eff in cf.valid_dims(cls, 4)
    r.true("accepted without invalid-dimension warning => class is valid in the effective dimension (documented table)", warned or valid, info={"warned": warned, "effective_dim": eff}, **extra)
    r.true("warning issued <=> class documented as invalid in the effective dimension", warned == (not valid), info={"warned": warned, "effective_dim": eff}, **extra)
    if not warned:
        # independent confirmation on point sets of the effective geometry
        for ls in (0.6, 1.0, 2.0):
            m.len_scale = ls
            if m.latlon and not m.temporal:
                k = np.arange(120)
                pos = np.array([np.rad2deg(np.arcsin(1 - 2 * (k + 0.5) / 120)), np.rad2deg((k * math.pi * (3 - math.sqrt(5))) % (2 * math.pi)) - 180.0])
                Cm = cov_matrix(m, pos, "latlon")
            else:
                pos = lattice(eff, {1: 12, 2: 6, 3: 4, 4: 3}[eff], 0.5 * ls)
                dist = np.linalg.norm(pos[:, :, None] - pos[:, None, :], axis=0)
                Cm = np.asarray(m.covariance(dist * (m.geo_scale if m.latlon else 1.0)))
            ev = np.linalg.eigvalsh((Cm + Cm.T) / 2)
            r.true("accepted model: covariance matrix in the effective geometry has no negative eigenvalue", ev[0] >= -1e-10 * np.trace(Cm), info=float(ev[0]), len_scale=ls, **extra)
    return r.done(outcome=[cls, eff, warned])


def case_dimraise(case):
    """a model built in a low dimension with a shape parameter that is only valid there: raising the
    dimension in place is refused, or the result is a valid covariance in the new dimension"""
    r = R()
    cls, d0, d1, nu = case["cls"], case["d0"], case["d1"], case["nu"]
    extra = {"cls": cls, "d0": d0, "d1": d1, "nu": nu}
    m = getattr(gs, cls)(dim=d0, len_scale=1.0, **({} if nu is None else {"nu": nu}))
    m.cor(np.array([0.3]))
    m.covariance(np.array([0.0, 0.4, 0.9])), m.variogram(np.array([0.2]))
    try:
        m.dim = d1
    except ValueError:
        r.eq("refused dimension change leaves the dimension unchanged", int(m.dim), d0, **extra)
        return r.done(outcome=[cls, d0, d1, "refused"])
    if nu is not None:
        lo = {"JBessel": d1 / 2 - 1, "SuperSpherical": (d1 - 1) / 2, "TPLSimple": (d1 + 1) / 2}[cls]
        r.true("accepted dimension change => shape parameter inside the documented bounds of the new dimension", float(m.nu) >= lo - 1e-12, info={"nu": float(m.nu), "lower bound": lo}, **extra)
    fresh = getattr(gs, cls)(dim=d1, len_scale=1.0, **({} if nu is None else {"nu": float(m.nu)}))
    hh = np.array([0.0, 0.1, 0.45, 0.8, 0.999, 1.0, 1.3])
    r.close("accepted dimension change => correlation of the model built in the new dimension", m.correlation(hh), fresh.correlation(hh), rtol=1e-12, atol=1e-14, **extra)
    for ls in (0.5, 1.0, 2.0):
        m.len_scale = ls
        pos = lattice(d1, {1: 12, 2: 6, 3: 5, 4: 3}[d1], 0.5)
        dist = np.linalg.norm(pos[:, :, None] - pos[:, None, :], axis=0)
        Cm = np.asarray(m.covariance(dist))
        ev = np.linalg.eigvalsh((Cm + Cm.T) / 2)
        r.true("accepted dimension change => covariance matrix in the new dimension has no negative eigenvalue", ev[0] >= -1e-10 * np.trace(Cm), info=float(ev[0]), len_scale=ls, **extra)
    return r.done(outcome=[cls, d0, d1, "accepted"])


def case_reject(case):
    """a rejected assignment (value outside the bounds that guarantee validity) leaves a valid model behind"""
    r = R()
    cls, d, attr, bad = case["cls"], case["dim"], case["attr"], case["bad"]
    opts = case["opts"]
    m = getattr(gs, cls)(dim=d, len_scale=1.0, var=1.5, **opts)
    old = float(getattr(m, attr))
    extra = {"cls": cls, "dim": d, "attr": attr, "bad": bad}
    try:
        setattr(m, attr, bad)
        raised = False
    except ValueError:
        raised = True
    r.true("assignment outside the bounds is refused", raised, info={"value now": float(getattr(m, attr))}, **extra)
    r.close("after a refused assignment the parameter has its old value", float(getattr(m, attr)), old, rtol=0, atol=0, **extra)
    pos = lattice(d, {1: 12, 2: 6, 3: 5}[d], 0.5)
    dist = np.linalg.norm(pos[:, :, None] - pos[:, None, :], axis=0)
    Cm = np.asarray(m.covariance(dist)) + m.nugget * np.eye(dist.shape[0])
    ev = np.linalg.eigvalsh((Cm + Cm.T) / 2)
    r.true("after a refused assignment the covariance matrix has no negative eigenvalue", ev[0] >= -1e-10 * abs(np.trace(Cm)), info=float(ev[0]), **extra)
    return r.done(outcome=[cls, d, attr, raised])


GROUPS = {"reject": case_reject, "matrix": case_matrix, "spectrum": case_spectrum, "accept": case_accept, "dimraise": case_dimraise}


def run(chk):
    tier, seed = chk.tier, chk.seed
    mc, sc = [], []
    for cls in cf.SHIPPED:
        for d in (1, 2, 3, 4):
            sd_valid = cf.valid_dims(cls, 4)
            for geo in ("iso", "aniso", "time", "latlon", "rescaled"):
                if geo == "rescaled" and (cls not in cf.TPL and tier == "quick" or d == 4 or d not in sd_valid):
                    continue
                if geo == "latlon" and (d != 3 or 3 not in sd_valid):
                    continue
                if geo == "time":
                    if d < 2 or d not in sd_valid:
                        continue  # the space-time metric model lives in dim = spatial_dim + 1
                elif geo != "latlon" and (d not in sd_valid or d == 4):
                    continue
                if geo == "aniso" and d == 1:
                    continue
                og_ = opt_grid(cls, d, tier) + (cf.near_integer_order_grid(cls, tier) if geo == "iso" or cls == "TPLStable" else [])
                for opts in og_:
                    mc.append({"cls": cls, "dim": d, "geo": geo, "opts": opts, "tier": tier})
        for d in cf.valid_dims(cls):
            for opts in opt_grid(cls, d, tier):
                sc.append({"cls": cls, "dim": d, "opts": opts})
    # negative controls: classes in dimensions where they are documented to be invalid
    ctrl_m = [{"cls": "Linear", "dim": 2, "geo": "iso", "opts": {}, "tier": "thorough", "control": True}, {"cls": "SuperSpherical", "dim": 3, "geo": "iso", "opts": {"nu": 0.0}, "tier": "thorough", "control": True, "force": True}, {"cls": "TPLSimple", "dim": 3, "geo": "iso", "opts": {"nu": 1.0}, "tier": "thorough", "control": True, "force": True}]
    ctrl_s = [{"cls": "Linear", "dim": 2, "opts": {}, "control": True}, {"cls": "Circular", "dim": 3, "opts": {}, "control": True}]
    chk.run("matrix", case_matrix, mc, rule="class x valid dim (1-3; 4 as space+time) x optional-argument grid incl. dimension-dependent bounds and len_low > len_scale x {isotropic, anisotropic+rotated, space-time metric, lat-lon} x len_scale {.3, 1, 3} x point sets (lattices at spacings l/5, l/2, l; two-scale clusters; k-subsets of the 3^d lattice; sphere grids with poles / date line, Fibonacci points): smallest eigenvalue, rho(0)=1, |rho|<=1, plane-wave quadratic forms", chunk=2)
    chk.run("spectrum", case_spectrum, sc, rule="class x valid dim x optional-argument grid: sign of the independent d-dimensional radial Fourier transform of the correlation on k l in {0 .. 60}", max_skip_frac=0.5, chunk=2)
    ac = []
    for cls in cf.SHIPPED:
        for latlon, temporal in itertools.product((False, True), repeat=2):
            for dimkw in [{}] + [{"dim": d} for d in (1, 2, 3, 4)] + [{"spatial_dim": d} for d in (1, 2, 3)]:
                kw = dict(dimkw, latlon=latlon, temporal=temporal)
                ac.append({"cls": cls, "route": "init", "kw": kw})
                if "dim" in dimkw:
                    ac.append({"cls": cls, "route": "setter", "kw": kw})
    chk.run("accept", case_accept, ac, rule="class x {latlon} x {temporal} x dimension argument {none, dim=1..4, spatial_dim=1..3} x {constructor, dim setter}: a model accepted without the invalid-dimension warning has an effective dimension (3 / 4 for lat-lon) in which the class is documented valid, confirmed by eigenvalues on a lattice / sphere point set", chunk=8, max_skip_frac=0.5)
    dr = []
    for cls, lo in (("JBessel", lambda d: d / 2 - 1), ("SuperSpherical", lambda d: (d - 1) / 2), ("TPLSimple", lambda d: (d + 1) / 2)):
        for d0, d1 in itertools.permutations((1, 2, 3, 4), 2):
            for nu in sorted({lo(d0), lo(d0) + 0.1, lo(d1), lo(d1) - 0.1, 5.0}):
                if nu >= lo(d0) and (cls != "JBessel" or nu > -0.5 + 1e-9 or d0 == 1):
                    dr.append({"cls": cls, "d0": d0, "d1": d1, "nu": float(nu)})
    for d0, d1 in itertools.permutations((1, 2, 3, 4), 2):
        dr.append({"cls": "HyperSpherical", "d0": d0, "d1": d1, "nu": None})  # shape follows the dimension
    chk.run("dimraise", case_dimraise, dr, rule="classes with dimension dependent bounds (JBessel, SuperSpherical, TPLSimple) x every ordered pair of dimensions 1-4 x shape parameter at / just above / just below the bounds of both dimensions: the model is built and used in the first dimension, dim is assigned in place; the change is refused or the model is valid in the new dimension (documented bound and eigenvalues)", chunk=8, min_outcomes=2)
    rj = []
    for d in (1, 2, 3):
        rj += [{"cls": "JBessel", "dim": d, "opts": {"nu": d / 2 + 0.5}, "attr": "nu", "bad": d / 2 - 1.4}, {"cls": "SuperSpherical", "dim": d, "opts": {"nu": (d - 1) / 2 + 1.0}, "attr": "nu", "bad": (d - 1) / 2 - 0.5}, {"cls": "TPLSimple", "dim": d, "opts": {"nu": (d + 1) / 2 + 1.0}, "attr": "nu", "bad": (d + 1) / 2 - 0.5}, {"cls": "Stable", "dim": d, "opts": {"alpha": 1.5}, "attr": "alpha", "bad": 2.6}, {"cls": "Matern", "dim": d, "opts": {"nu": 1.0}, "attr": "nu", "bad": 0.01}, {"cls": "Gaussian", "dim": d, "opts": {}, "attr": "nugget", "bad": -0.3}, {"cls": "Exponential", "dim": d, "opts": {}, "attr": "var", "bad": -1.0}, {"cls": "Gaussian", "dim": d, "opts": {}, "attr": "len_scale", "bad": -2.0}]
    chk.run("reject", case_reject, rj, rule="class x dim x parameter: an assignment outside the documented bounds is refused and leaves the old value and a positive semi-definite covariance", chunk=8, min_outcomes=2)
    # controls (bounds of SuperSpherical / TPLSimple are violated on purpose through set_arg_bounds)
    cres = []
    for c in ctrl_m:
        if c.get("force"):
            cres.append(_forced_control(c))
        else:
            cres.append(case_matrix(c)["sub"]["negative_found"])
    chk.control("eigenvalue route finds a negative eigenvalue for models used in an invalid dimension / below their bound (Linear d=2, SuperSpherical nu=0 d=3, TPLSimple nu=1 d=3)", all(cres), info=str(cres))
    sres = [case_spectrum(c)["sub"]["negative_lobe_found"] for c in ctrl_s]
    chk.control("spectral route finds the negative lobe of Linear in d=2 and Circular in d=3", all(sres), info=str(sres))
    chk.assume("'every finite point set' is represented by lattices (up to 12 / 8^2 / 4^3 / 3^4 points quick), clusters, subsets and sphere grids, plus the sign of the spectrum on a bounded wave-number grid (k l <= 60); positive-definiteness beyond rests on the closed-form asymptotics")
    chk.assume("eigenvalue threshold -1e-10 x trace (measured margin: -1.4e-13); the correlation inside the transform is the library's (decided by C03)")


def _forced_control(c):
    C = getattr(gs, c["cls"])
    d = c["dim"]
    m = C(dim=1, len_scale=1.0, **c["opts"]) if c["cls"] == "SuperSpherical" else None
    pos = lattice(d, 5, 0.5)
    diff = pos[:, :, None] - pos[:, None, :]
    dist = np.linalg.norm(diff, axis=0)
    h = dist / 1.0
    if c["cls"] == "SuperSpherical":
        cor = np.where(h < 1, 1 - h, 0.0)  # nu = 0: the linear model
    else:
        cor = np.where(h < 1, (1 - h) ** c["opts"]["nu"], 0.0)
    ev = np.linalg.eigvalsh(cor)
    return int(ev[0] < -1e-6)
