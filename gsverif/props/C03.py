"""C03 - model functions are mutually consistent and match their documented closed forms.

Full product (class x dim x optional-argument grid incl. bounds x var/len_scale/nugget/rescale)
x lag alphabet placed at every branch boundary (0, the isclose zone, the support edge +-1e-12,
the x>30 branch of the exponential integral, far tail); reference: closed forms written from
the docstrings in mpmath (gsverif.oracles.closed_forms).
"""
import itertools
import math
import warnings

import mpmath as mp
import numpy as np

import gstools as gs

from ..core import R, generic_values
from ..oracles import closed_forms as cf
from ..oracles import geometry as og

LEVEL = "exploration"
warnings.simplefilter("ignore")

H_ALPHABET = [0.0, 1e-6, 0.1, 0.5, 1 - 1e-12, 1.0, 1 + 1e-12, 2.0, 5.0, 5.6, 31.0, 100.0]


def build(cls, dim, opts, var, len_scale, nugget, rescale, **kw):
    C = getattr(gs, cls)
    return C(dim=dim, var=var, len_scale=len_scale, nugget=nugget, rescale=rescale, **opts, **kw)


def case_model(case):
    r = R()
    cls, dim, opts = case["cls"], case["dim"], case["opts"]
    var, ls, nug, rescale = case["var"], case["len_scale"], case["nugget"], case["rescale"]
    m = build(cls, dim, opts, var, ls, nug, rescale)
    s = cf.DEFAULT_RESCALE[cls] if rescale is None else rescale
    extra = {"cls": cls, "dim": dim}
    r.close("default rescale factor as documented", m.rescale, s, rtol=1e-14, **extra)
    hs = list(H_ALPHABET) + case.get("generic_h", [])
    lags = np.array([h * ls / s for h in hs])
    # reference correlation at the lags
    ref = np.array([float(cf.ref_correlation(cls, opts, dim, x, ls, s)) for x in lags])
    refvar = var
    if cls in cf.TPL:
        # var given: the variance *is* var (intensity derived); checked through var_raw * factor
        r.close("TPL: var == var_raw * intensity factor (documented formula)", m.var, m.var_raw * cf.tpl_var_factor(opts, ls, s), rtol=1e-12, **extra)
    TOL = dict(rtol=1e-8, atol=1e-9)
    cor = m.correlation(lags)
    r.close("correlation(r) == documented closed form", cor, ref, **TOL, **extra)
    if cls not in cf.TPL:
        hh = np.array(hs)
        refh = np.array([float(cf.ref_cor(cls, opts, dim, h)) for h in hs])
        r.close("cor(h) == documented closed form", m.cor(hh), refh, **TOL, **extra)
        r.close("correlation(r) == cor(rescale * r / len_scale)", cor, m.cor(s * lags / ls), rtol=1e-12, atol=1e-14, **extra)
    r.close("covariance(r) == var * correlation(r)", m.covariance(lags), var * cor, rtol=1e-12, atol=1e-14 * var, **extra)
    # lags given as list of int / integer array / python int are the same numbers
    li = [0, 1, 2, 5]
    for fname in ("correlation", "covariance", "variogram", "cor"):
        fn = getattr(m, fname)
        base = np.asarray(fn(np.array(li, dtype=float)), dtype=float)
        r.close(f"{fname}(integer array) == {fname}(float array)", np.asarray(fn(np.array(li)), dtype=float), base, rtol=1e-13, atol=1e-300, **extra)
        if fname != "cor":  # (cor is the kernel of the class, documented for arrays only)
            try:  # documented argument type is an array; a list is either refused (TypeError) or means the same numbers
                r.close(f"{fname}(list of int) == {fname}(float array)", np.asarray(fn(li), dtype=float), base, rtol=1e-13, atol=1e-300, **extra)
            except TypeError:
                pass
            r.close(f"{fname}(python int) == {fname}(float array)[i]", [float(np.asarray(fn(x_)).ravel()[0]) for x_ in li], base, rtol=1e-13, atol=1e-300, **extra)
    r.close("variogram(r) == var + nugget - covariance(r)", m.variogram(lags), var + nug - m.covariance(lags), rtol=1e-12, atol=1e-13 * (var + nug), **extra)
    r.close("variogram(r) == documented closed form", m.variogram(lags), var * (1 - ref) + nug, rtol=1e-8, atol=1e-9 * (var + nug), **extra)
    r.close("sill == var + nugget", m.sill, var + nug, rtol=1e-14, **extra)
    r.true("correlation(0) == 1 and |correlation| <= 1", abs(float(cor[0]) - 1) < 1e-12 and bool(np.all(np.abs(cor) <= 1 + 1e-12)), info=cor.tolist(), **extra)
    # nugget-aware variants: differ only at r = 0 (lags >= 1e-6 len_scale are 'not zero')
    vn, cn = m.vario_nugget(lags), m.cov_nugget(lags)
    r.close("vario_nugget(0) == 0", vn[0], 0.0, atol=0, **extra)
    r.close("cov_nugget(0) == sill", cn[0], var + nug, rtol=1e-14, **extra)
    nz = lags > 1e-7 * max(1.0, ls)
    r.close("vario_nugget(r>0) == variogram(r)", vn[nz], m.variogram(lags)[nz], rtol=0, atol=0, **extra)
    r.close("cov_nugget(r>0) == covariance(r)", cn[nz], m.covariance(lags)[nz], rtol=0, atol=0, **extra)
    # negative lags and scalar / 2-d input
    r.close("functions are even in r", m.variogram(-lags), m.variogram(lags), rtol=1e-14, atol=0, **extra)
    r.close("scalar input", [float(m.variogram(float(x))) for x in lags[:4]], m.variogram(lags)[:4], rtol=1e-13, atol=1e-15 * (var + nug), **extra)
    r.close("2-d input keeps shape", m.covariance(lags[:4].reshape(2, 2)), m.covariance(lags)[:4].reshape(2, 2), rtol=1e-14, atol=0, **extra)
    # percentile scale: variogram reaches that fraction of the variance
    for per in (0.1, 0.5, 0.9, 0.99):
        if cls == "JBessel":
            break  # not monotone: the 'first' crossing is what root finding may or may not find
        try:
            ps = m.percentile_scale(per)
        except Exception as e:  # noqa
            r.fail("percentile_scale raised", repr(e), None, per=per, **extra)
            continue
        val = float(cf.ref_correlation(cls, opts, dim, ps, ls, s))
        r.close("variogram(percentile_scale(p)) - nugget == p * var", 1 - val, per, rtol=1e-6, atol=1e-8, per=per, **extra)
    r.raises("percentile outside (0,1) rejected", lambda: m.percentile_scale(1.0), ValueError, **extra)
    return r.done(outcome=[round(float(v), 10) for v in ref[2:5]])


def _ref_integral(cls, opts, dim, ls, s):
    """integral of the reference correlation over [0, inf) (mp.quad, split at the support edge)"""
    f = lambda x: cf.ref_correlation(cls, opts, dim, x, ls, s)
    unit = ls / s
    if cls in cf.COMPACT:
        return float(mp.quad(f, [0, unit / 2, unit]))
    pts = [0, unit / 10, unit, 5 * unit, 30 * unit, 300 * unit, 3000 * unit, mp.inf]
    return float(mp.quad(f, pts))


def case_integral(case):
    r = R()
    cls, dim, opts = case["cls"], case["dim"], case["opts"]
    ls, rescale = case["len_scale"], case["rescale"]
    s = cf.DEFAULT_RESCALE[cls] if rescale is None else rescale
    extra = {"cls": cls, "dim": dim}
    m = build(cls, dim, opts, 1.3, ls, 0.2, rescale)
    if cls == "JBessel":
        return r.done(skip="oscillating correlation: integral scale not absolutely convergent")
    slow = cls == "Integral" and opts["nu"] < 1.0 or cls == "Rational" and opts["alpha"] <= 0.5 or cls == "Stable" and opts["alpha"] < 0.5 or (cls in cf.TPL and opts["hurst"] > 0.45)
    if slow:
        return r.done(skip="heavy tail: integral scale infinite or beyond quadrature accuracy")
    I = _ref_integral(cls, opts, dim, ls, s)
    r.close("integral_scale == integral of the documented correlation", m.integral_scale, I, rtol=2e-6, **extra)
    if dim > 1:
        m2 = build(cls, dim, opts, 1.3, ls, 0.2, rescale, anis=[0.5, 2.0][: dim - 1])
        r.close("integral_scale_vec == integral_scale * [1, anis]", m2.integral_scale_vec, np.array([I] + [I * a for a in [0.5, 2.0][: dim - 1]]), rtol=2e-6, **extra)
    if cls in cf.TPL and opts.get("len_low", 0) > 0:
        return r.done(outcome=round(I, 8))
    # prescribing the integral scale instead of the length scale (constructor and setter; list form)
    for target in (0.8, 3.0):
        mi = getattr(gs, cls)(dim=dim, integral_scale=target, rescale=rescale, **opts)
        Ii = _ref_integral(cls, opts, dim, mi.len_scale, s)
        r.close("constructor integral_scale=v: integral of correlation == v", Ii, target, rtol=2e-6, target=target, **extra)
        ms = build(cls, dim, opts, 1.3, ls, 0.2, rescale)
        ms.integral_scale = target
        r.close("setter integral_scale=v: same length scale as constructor", ms.len_scale, mi.len_scale, rtol=1e-10, target=target, **extra)
    if dim > 1:
        tl = [2.0, 1.0, 4.0][:dim]
        ml = getattr(gs, cls)(dim=dim, integral_scale=tl, rescale=rescale, **opts)
        Il = _ref_integral(cls, opts, dim, ml.len_scale, s)
        r.close("integral_scale=list: main integral scale", Il, tl[0], rtol=2e-6, **extra)
        r.close("integral_scale=list: anisotropy ratios", ml.anis, [x / tl[0] for x in tl[1:]], rtol=1e-12, **extra)
    return r.done(outcome=round(I, 8))


def _rot(dim, angles):
    """documented rotation: 2-D counter-clockwise about z; 3-D Rx(roll) Ry(pitch) Rz(yaw)"""
    if dim == 1:
        return np.eye(1)
    a = list(angles) + [0.0] * 3
    if dim == 2:
        c, s = np.cos(a[0]), np.sin(a[0])
        return np.array([[c, -s], [s, c]])
    ca, sa, cb, sb, cc, sc = np.cos(a[0]), np.sin(a[0]), np.cos(a[1]), np.sin(a[1]), np.cos(a[2]), np.sin(a[2])
    Rz = np.array([[ca, -sa, 0], [sa, ca, 0], [0, 0, 1]])
    Ry = np.array([[cb, 0, sb], [0, 1, 0], [-sb, 0, cb]])
    Rx = np.array([[1, 0, 0], [0, cc, -sc], [0, sc, cc]])
    return Rx @ Ry @ Rz


def case_variants(case):
    """axis / spatial / yadrenko variants equal the isotropic function of the transformed lag"""
    r = R()
    cls, dim, opts = case["cls"], case["dim"], case["opts"]
    anis, angles = case["anis"][: dim - 1], case["angles"][: dim * (dim - 1) // 2]
    extra = {"cls": cls, "dim": dim}
    m = build(cls, dim, opts, 1.7, 2.0, 0.3, None, anis=anis if anis else 1.0, angles=angles if angles else 0.0)
    lags = np.array([0.0, 0.3, 1.0, 2.0, 4.5])
    for ax in range(dim):
        scale = 1.0 if ax == 0 else anis[ax - 1]
        r.close("vario_axis(r, i) == variogram(r / anis_i)", m.vario_axis(lags, ax), m.variogram(lags / scale), rtol=1e-12, atol=1e-14, axis=ax, **extra)
        r.close("cov_axis(r, i) == covariance(r / anis_i)", m.cov_axis(lags, ax), m.covariance(lags / scale), rtol=1e-12, atol=1e-14, axis=ax, **extra)
        r.close("cor_axis(r, i) == correlation(r / anis_i)", m.cor_axis(lags, ax), m.correlation(lags / scale), rtol=1e-12, atol=1e-14, axis=ax, **extra)
    # spatial variants: lag vector -> rotate back by the documented rotation, divide by anisotropy
    pos = np.array([[0.0, 1.0, -0.5, 2.0, 0.3], [0.0, 0.4, 1.5, -1.0, 0.0], [0.0, -0.7, 0.2, 0.9, 0.0]])[:dim]
    Rm = _rot(dim, angles)
    iso = (Rm.T @ pos) / np.array([1.0] + list(anis))[:, None]
    rad = np.linalg.norm(iso, axis=0)
    r.close("vario_spatial(x) == variogram(|transformed lag|)", m.vario_spatial(pos), m.variogram(rad), rtol=1e-11, atol=1e-13, **extra)
    r.close("cov_spatial(x) == covariance(|transformed lag|)", m.cov_spatial(pos), m.covariance(rad), rtol=1e-11, atol=1e-13, **extra)
    r.close("cor_spatial(x) == correlation(|transformed lag|)", m.cor_spatial(pos), m.correlation(rad), rtol=1e-11, atol=1e-13, **extra)
    # along main axis i at lag len_scale*anis_i*t the correlation equals the isotropic one at len_scale*t
    for ax in range(dim):
        t = np.array([0.25, 1.0, 2.0])
        scale = 1.0 if ax == 0 else anis[ax - 1]
        p = Rm[:, ax][:, None] * (2.0 * scale * t)[None, :]
        r.close("correlation along rotated main axis i at len_scale*anis_i*t == isotropic at len_scale*t", m.cor_spatial(p), m.correlation(2.0 * t), rtol=1e-11, atol=1e-13, axis=ax, **extra)
    return r.done(outcome=[round(float(v), 10) for v in rad[:3]])


def case_yadrenko(case):
    r = R()
    cls, opts, gsc = case["cls"], case["opts"], case["geo_scale"]
    extra = {"cls": cls}
    m = getattr(gs, cls)(latlon=True, var=1.4, len_scale=0.7 * gsc, nugget=0.1, geo_scale=gsc, **opts)
    zeta = np.array([0.0, 0.1, 0.5, 1.0, 2.0, math.pi]) * gsc
    chord = 2 * gsc * np.sin(zeta / gsc / 2)
    r.close("vario_yadrenko(zeta) == variogram(chordal distance)", m.vario_yadrenko(zeta), m.variogram(chord), rtol=1e-12, atol=1e-14, **extra)
    r.close("cov_yadrenko(zeta) == covariance(chordal distance)", m.cov_yadrenko(zeta), m.covariance(chord), rtol=1e-12, atol=1e-14, **extra)
    r.close("cor_yadrenko(zeta) == correlation(chordal distance)", m.cor_yadrenko(zeta), m.correlation(chord), rtol=1e-12, atol=1e-14, **extra)
    # the closed form of a lat-lon model is the one of its effective dimension (3)
    ref = np.array([float(cf.ref_correlation(cls, opts, 3, x, 0.7 * gsc, m.rescale)) for x in chord])
    r.close("lat-lon model: correlation == documented closed form in the effective dimension", m.correlation(chord), ref, rtol=1e-8, atol=1e-9, **extra)
    r.close("lat-lon model: cor_yadrenko == documented closed form of the chordal distance", m.cor_yadrenko(zeta), ref, rtol=1e-8, atol=1e-9, **extra)
    return r.done(outcome=[round(float(v), 10) for v in m.cor_yadrenko(zeta)[:3]])


def case_effdim(case):
    """spatio-temporal (metric) and lat-lon models evaluate the closed form of their effective dimension"""
    r = R()
    cls, opts, kw = case["cls"], case["opts"], case["kw"]
    m = getattr(gs, cls)(var=1.4, len_scale=1.3, nugget=0.1, **kw, **opts)
    d = int(m.dim)
    extra = {"cls": cls, "dim": d, **kw}
    lags = np.array([0.0, 1e-6, 0.1, 0.4, 0.9, 1.3, 2.0, 5.0]) / m.rescale * 1.3
    ref = np.array([float(cf.ref_correlation(cls, opts, d, x, 1.3, m.rescale)) for x in lags])
    r.close("correlation == documented closed form in the effective dimension (space + time / sphere embedding)", m.correlation(lags), ref, rtol=1e-8, atol=1e-9, **extra)
    r.close("variogram == var (1 - closed form) + nugget in the effective dimension", m.variogram(lags), 1.4 * (1 - ref) + 0.1, rtol=1e-8, atol=1e-9, **extra)
    fresh = getattr(gs, cls)(dim=d, var=1.4, len_scale=1.3, nugget=0.1, **opts)
    r.close("same values as the plain model of that dimension", m.correlation(lags), fresh.correlation(lags), rtol=1e-12, atol=1e-14, **extra)
    rng = np.random.RandomState(2)
    if kw.get("latlon"):
        # a lat-lon model stays isotropic in space whatever is assigned to len_scale / integral_scale
        for how in ("len_scale list", "integral_scale list"):
            m2 = getattr(gs, cls)(var=1.4, len_scale=1.3, nugget=0.1, **kw, **opts)
            try:
                if how == "len_scale list":
                    m2.len_scale = [1.3, 0.4, 2.0][: len(m2.anis) + 1]
                else:
                    m2.integral_scale = [1.1, 0.3, 2.0][: len(m2.anis) + 1]
            except ValueError:
                continue
            r.close("lat-lon model: spatial anisotropy ratios stay 1 after a per-axis list was assigned", np.array(m2.anis)[:2], [1.0, 1.0], rtol=0, atol=0, how=how, **extra)
            vec = rng.uniform(-1, 1, size=(3, 4))
            full = np.vstack([vec, np.zeros((1, 4))]) if kw.get("temporal") else vec
            r.close("lat-lon model: cov_spatial(chord vector) == covariance(|chord|)", m2.cov_spatial(full), m2.covariance(np.linalg.norm(vec, axis=0)), rtol=1e-12, atol=1e-14, how=how, **extra)
    elif kw.get("temporal") and kw.get("spatial_dim", 0) >= 2:
        # rotated anisotropic space-time model: spatial functions of a lag == isotropic function of the transformed lag
        sd = kw["spatial_dim"]
        ang = [0.6, -0.3, 0.8][: og.n_angles(sd)]
        an = [0.5, 1.6][: sd - 1] + [2.5]
        m3 = getattr(gs, cls)(var=1.4, len_scale=1.3, nugget=0.1, anis=an, angles=ang, **kw, **opts)
        lag = rng.uniform(-2, 2, size=(sd + 1, 6))
        iso_sp = og.isometrize(sd, ang, an[: sd - 1], lag[:sd])
        rad = np.sqrt((iso_sp**2).sum(axis=0) + (lag[sd] / an[-1]) ** 2)
        r.close("space-time model: cov_spatial(lag) == covariance(|rotated, stretched lag|)", m3.cov_spatial(lag), m3.covariance(rad), rtol=1e-11, atol=1e-13, **extra)
        r.close("space-time model: vario_spatial(lag) == variogram(|rotated, stretched lag|)", m3.vario_spatial(lag), m3.variogram(rad), rtol=1e-11, atol=1e-13, **extra)
    return r.done(outcome=[cls, d, str(kw)])


def _user_classes():
    """the same kernel exp(-h^1.5) defined through each of the four defining functions"""

    class UCor(gs.CovModel):
        def cor(self, h):
            return np.exp(-np.abs(h) ** 1.5)

    class UCorrelation(gs.CovModel):
        def correlation(self, r):
            return np.exp(-(np.abs(r) / self.len_rescaled) ** 1.5)

    class UCovariance(gs.CovModel):
        def covariance(self, r):
            return self.var * np.exp(-(np.abs(r) / self.len_rescaled) ** 1.5)

    class UVariogram(gs.CovModel):
        def variogram(self, r):
            return self.var * (1 - np.exp(-(np.abs(r) / self.len_rescaled) ** 1.5)) + self.nugget

    return {"cor": UCor, "correlation": UCorrelation, "covariance": UCovariance, "variogram": UVariogram}


def case_user(case):
    r = R()
    dim, var, ls, nug, rs = case["dim"], case["var"], case["len_scale"], case["nugget"], case["rescale"]
    ms = {k: C(dim=dim, var=var, len_scale=ls, nugget=nug, rescale=rs) for k, C in _user_classes().items()}
    lags = np.array([0.0, 1e-6, 0.3, 1.0, 2.5, 7.0, 40.0]) * ls
    s = 1.0 if rs is None else rs
    ref = np.exp(-((s * lags / ls) ** 1.5))
    for k, m in ms.items():
        extra = {"defined_via": k}
        r.close("user model: correlation == kernel", m.correlation(lags), ref, rtol=1e-12, atol=1e-15, **extra)
        r.close("user model: cor(h) == kernel(h)", m.cor(s * lags / ls), ref, rtol=1e-12, atol=1e-15, **extra)
        r.close("user model: covariance == var * kernel", m.covariance(lags), var * ref, rtol=1e-12, atol=1e-15, **extra)
        r.close("user model: variogram == var (1-kernel) + nugget", m.variogram(lags), var * (1 - ref) + nug, rtol=1e-12, atol=1e-14, **extra)
        from scipy.special import gamma

        r.close("user model: integral scale == quadrature value", m.integral_scale, ls / s * gamma(1 + 1 / 1.5), rtol=1e-6, **extra)
        r.close("user model: percentile scale", 1 - float(m.correlation(m.percentile_scale(0.7))), 0.7, rtol=1e-6, **extra)
    return r.done(outcome=[round(float(v), 10) for v in ref[2:5]])


def case_history(case):
    """functions after in-place parameter changes (with evaluations in between) still equal the closed forms"""
    r = R()
    cls, dim = case["cls"], case["dim"]
    grid = cf.opt_grid(cls, dim, "thorough")
    m = build(cls, dim, grid[0], 1.0, 1.0, 0.0, None)
    hs = np.array([0.0, 0.05, 0.3, 0.9, 1.0, 1.7, 4.0])
    state = {"opts": dict(grid[0]), "var": 1.0, "ls": 1.0, "nug": 0.0, "rs": None}
    others = [d for d in cf.valid_dims(cls) if d != dim]
    dsteps = [[("dim", d)] for d in others[:2]] + [[], []]
    steps = [("opts", o) for o in grid[1:]] + dsteps[0] + [("ls", 2.5), ("rs", 2.0), ("var", 0.6), ("nug", 0.2), ("opts", grid[0])] + ([("dim", dim)] if others else []) + [("ls", 0.4)] + dsteps[1] + [("opts", o) for o in reversed(grid)]
    state["dim"] = dim
    with_int = cls not in ("JBessel", "TPLStable")
    for kind, val in steps:
        m.variogram(hs)  # evaluate before the change
        m.cor(hs)
        if with_int:
            m.integral_scale, m.integral_scale_vec
        try:
            if kind == "dim":
                m.dim = val
                state["dim"] = val
            elif kind == "opts":
                for k, v in val.items():
                    setattr(m, k, v)
                state["opts"] = dict(val)
            elif kind == "ls":
                m.len_scale = val
                state["ls"] = val
            elif kind == "rs":
                m.rescale = val
                state["rs"] = val
            elif kind == "var":
                m.var = val
                state["var"] = val
            elif kind == "nug":
                m.nugget = val
                state["nug"] = val
        except ValueError:
            continue
        s_ = cf.DEFAULT_RESCALE[cls] if state["rs"] is None else state["rs"]
        lags = hs * state["ls"] / s_
        dim = state["dim"]
        ref = np.array([float(cf.ref_correlation(cls, state["opts"], dim, x, state["ls"], s_)) for x in lags])
        var = float(m.var)
        r.close("after in-place changes: correlation == documented closed form of the current parameters", m.correlation(lags), ref, rtol=1e-8, atol=1e-9, cls=cls, dim=dim, step=kind)
        r.close("after in-place changes: variogram == var (1 - rho) + nugget", m.variogram(lags), var * (1 - ref) + state["nug"], rtol=1e-8, atol=1e-9 * (var + 1), cls=cls, dim=dim, step=kind)
        fresh = build(cls, dim, state["opts"], 1.0, state["ls"], state["nug"], state["rs"])
        fresh.var_raw = m.var_raw
        r.close("after in-place changes: identical to a freshly constructed model", m.variogram(lags), fresh.variogram(lags), rtol=1e-12, atol=1e-14, cls=cls, dim=dim, step=kind)
        if with_int:
            r.close("after in-place changes: integral scale of a freshly constructed model", m.integral_scale, fresh.integral_scale, rtol=1e-10, cls=cls, dim=dim, step=kind)
    return r.done(outcome=[cls, case["dim"]])


GROUPS = {"history": case_history, "model": case_model, "integral": case_integral, "variants": case_variants, "yadrenko": case_yadrenko, "effdim": case_effdim, "user": case_user}


def run(chk):
    tier, seed = chk.tier, chk.seed
    gh = generic_values(seed, 3, 0.05, 3.0, "C03h")
    cases, icases, vcases = [], [], []
    pv = [(0.5, 0.7, 0.0, None), (2.0, 3.0, 0.3, 2.0)] if tier == "quick" else [(v, l, n, rs) for v in (0.5, 2.0) for l in (0.7, 3.0) for n in (0.0, 0.3) for rs in (None, 2.0)]
    for cls in cf.SHIPPED:
        for dim in (1, 2, 3):
            for opts in cf.opt_grid(cls, dim, tier) + cf.near_integer_order_grid(cls, tier):
                for var, ls, nug, rs in pv:
                    cases.append({"cls": cls, "dim": dim, "opts": opts, "var": var, "len_scale": ls, "nugget": nug, "rescale": rs, "generic_h": gh})
                for ls, rs in [(0.7, None), (3.0, 2.0)]:
                    icases.append({"cls": cls, "dim": dim, "opts": opts, "len_scale": ls, "rescale": rs})
                if dim > 1:
                    for anis, ang in [([0.5, 2.0], [0.0, 0.0, 0.0]), ([0.3, 0.8], [0.7, -0.4, 1.1]), ([1.0, 1.0], [2.5, 0.3, -0.9])]:
                        vcases.append({"cls": cls, "dim": dim, "opts": opts, "anis": anis, "angles": ang})
                else:
                    vcases.append({"cls": cls, "dim": 1, "opts": opts, "anis": [], "angles": []})
    chk.run("model", case_model, cases, rule="17 classes x dim 1-3 x optional-argument grid (both bounds, dimension dependent) x (var, len_scale, nugget, rescale) x lag alphabet {0, 1e-6, .1, .5, 1-1e-12, 1, 1+1e-12, 2, 5, 5.6, 31, 100}*len/rescale + generic lags")
    chk.run("integral", case_integral, icases, rule="class x dim x optional arguments x (len_scale, rescale): integral scale vs quadrature of the reference correlation; prescribing integral_scale (scalar, list) in constructor and setter", max_skip_frac=0.6)
    chk.run("variants", case_variants, vcases, rule="class x dim x optional arguments x (anisotropy, rotation) incl. unrotated-anisotropic and rotated-isotropic: axis / spatial variants and correlation along rotated main axes")
    ycases = [{"cls": c, "opts": cf.opt_grid(c, 3, "quick")[-1], "geo_scale": g} for c in cf.SHIPPED if 3 in cf.valid_dims(c) for g in (1.0, gs.KM_SCALE, 17.3)]
    ecases = []
    for c in cf.SHIPPED:
        for kw in ({"temporal": True, "spatial_dim": 1}, {"temporal": True, "spatial_dim": 2}, {"temporal": True, "spatial_dim": 3}, {"latlon": True}, {"latlon": True, "temporal": True}):
            eff = 3 + int(kw.get("temporal", False)) if kw.get("latlon") else kw["spatial_dim"] + 1
            if eff not in cf.valid_dims(c, 4):
                continue
            for opts in cf.opt_grid(c, eff, "quick")[:2]:
                ecases.append({"cls": c, "opts": opts, "kw": kw})
    chk.run("effdim", case_effdim, ecases, rule="class x {temporal with spatial_dim 1-3, lat-lon, lat-lon + temporal} x optional arguments: correlation / variogram equal the documented closed form of the effective dimension and the plain model of that dimension", chunk=4)
    chk.run("yadrenko", case_yadrenko, ycases, rule="classes valid in 3-D x geo_scale: Yadrenko variants vs isotropic functions of the chordal distance 2 R sin(zeta / 2R)")
    ucases = [{"dim": d, "var": v, "len_scale": l, "nugget": n, "rescale": rs} for d in (1, 2, 3) for v in (0.5, 2.0) for l in (0.7, 3.0) for n in (0.0, 0.3) for rs in (None, 2.0)]
    chk.run("user", case_user, ucases, rule="user subclasses defined via cor / correlation / covariance / variogram (same kernel) x dim x var x len_scale x nugget x rescale")
    hcases = [{"cls": c, "dim": d} for c in cf.SHIPPED for d in cf.valid_dims(c)]
    chk.run("history", case_history, hcases, rule="class x valid dim: a model is evaluated, then optional arguments (whole grid, forth and back), len_scale, rescale, var, nugget are changed in place with evaluations in between; after every change the functions equal the closed forms of the current parameters and a fresh model", chunk=2)
    chk.assume("nugget-aware variants are judged at exactly 0 and at lags >= 1e-6 len_scale; the library's isclose(r, 0) zone (|r| <= 1e-8) in between is treated as zero lag")
    chk.assume("special-function closed forms compared at rtol 1e-8 / atol 1e-9 (accuracy class of scipy.special); integral scales at 2e-6 (quadrature); JBessel and heavy-tailed parameter sets are excluded from the integral-scale comparison (not absolutely / practically convergent)")
