"""C04 - the spectral representation is the Fourier pair of the covariance.

Full product class x dim 1-3 x (len_scale, rescale) x shape-parameter grid x wave-number
alphabet x probability alphabet against an independent radial Fourier transform
(gsverif.oracles.fourier, QUADPACK on the correlation decided by C03) and a non-oscillatory
Gaussian-window Parseval identity; radial pdf = surface factor x density, normalisation,
cdf' = pdf, ppf o cdf = id, dist_func / has_cdf / has_ppf.
"""
import math
import warnings

import numpy as np
from scipy import integrate

import gstools as gs

from ..core import R, generic_values
from ..oracles import closed_forms as cf
from ..oracles import fourier as of

LEVEL = "exploration"
warnings.simplefilter("ignore")

ANALYTIC = {"Gaussian", "Exponential", "Matern", "Integral", "HyperSpherical", "JBessel", "TPLGaussian", "TPLExponential"}
KL = [0.0, 1e-9, 1e-6, 1e-3, 1e-2, 0.1, 0.5, 1.0, 2.0, 5.0, 10.0, 30.0]  # (1e-9 .. 1e-2: wave numbers that are small but not 'zero' for an absolute test)
KL_FAR = [100.0, 1000.0]
U = [1e-6, 0.01, 0.1, 0.5, 0.9, 0.99, 1 - 1e-6]


def heavy(cls, opts, d):
    """correlations whose radial transform is not absolutely convergent in d dimensions"""
    if cls == "Rational":
        return 2 * opts["alpha"] <= d + 0.5
    if cls == "Integral":
        return opts["nu"] <= d + 0.5 - 2 if False else opts["nu"] + 2 <= d + 0.5
    if cls == "Stable":
        return opts["alpha"] < 0.5
    if cls == "JBessel":
        return True  # oscillating, decays like r^-(nu+1/2): handled through the inverse direction
    if cls in cf.TPL:
        return 2 * opts["hurst"] <= d + 0.5 - 10 if False else False
    return False


def case_density(case):
    r = R()
    cls, d, opts, ls, rs = case["cls"], case["dim"], case["opts"], case["len_scale"], case["rescale"]
    m = getattr(gs, cls)(dim=d, var=1.7, len_scale=ls, rescale=rs, **opts)
    s = m.rescale
    unit = ls / s
    extra = {"cls": cls, "dim": d, "analytic": cls in ANALYTIC}
    import time as _time

    _t0 = _time.time()
    f = lambda x: float(m.correlation(x))
    support = unit if cls in cf.COMPACT else None
    analytic = cls in ANALYTIC
    ks = np.array(KL + (KL_FAR if analytic else [])) / unit
    dens = np.asarray(m.spectral_density(ks), dtype=float)
    r.close("spectrum == var * spectral_density", m.spectrum(ks), m.var * dens, rtol=1e-13, atol=0, **extra)
    # radial pdf = surface factor x |density|
    pdf = np.asarray(m.spectral_rad_pdf(ks), dtype=float)
    exp_pdf = of.surface(d, ks) * np.abs(dens)
    if d > 1:
        exp_pdf[np.isclose(ks, 0)] = 0.0
    r.close("spectral_rad_pdf == surface factor 2 pi^(d/2)/Gamma(d/2) k^(d-1) x |density|", pdf, exp_pdf, rtol=1e-12, atol=1e-300, **extra)
    r.close("ln_spectral_rad_pdf == log(pdf)", np.exp(m.ln_spectral_rad_pdf(ks[2:])), pdf[2:], rtol=1e-12, atol=0, **extra)
    S0 = None
    if cls == "JBessel":
        # compact spectrum, conditionally convergent correlation integral: inverse direction
        # rho(r) = int S(k) e^{-ik.r} d^d k  over the ball k < 1/unit
        kmax = 1.0 / unit
        for rr in (0.0, 0.5 * unit, 2.0 * unit, 7.0 * unit):
            if d == 1:
                val = 2 * integrate.quad(lambda k: float(m.spectral_density(k)) * math.cos(k * rr), 0, kmax, limit=400)[0]
            elif d == 3:
                val = integrate.quad(lambda k: float(m.spectral_density(k)) * 4 * math.pi * k * k * (math.sin(k * rr) / (k * rr) if k * rr > 0 else 1.0), 0, kmax, limit=400)[0]
            else:
                from scipy.special import j0

                val = integrate.quad(lambda k: float(m.spectral_density(k)) * 2 * math.pi * k * j0(k * rr), 0, kmax, limit=400)[0]
            if abs(opts["nu"] - (d / 2 - 1)) < 1e-9:
                continue  # nu = d/2 - 1: the spectrum degenerates to a shell (documented as unstable)
            r.close("JBessel: inverse transform of the density over the ball k < 1/l == correlation", val, f(rr), rtol=1e-6, atol=1e-7, r=rr, **extra)
        r.close("JBessel: density vanishes outside the ball", m.spectral_density(np.array([1.0001, 2.0, 10.0]) / unit), np.zeros(3), rtol=0, atol=0, **extra)
    elif heavy(cls, opts, d):
        return r.done(skip="correlation tail too heavy for an absolutely convergent transform in this dimension")
    else:
        rmax = of.find_rmax(f, d, unit, support)
        if rmax is None:
            return r.done(skip="correlation tail too heavy for the quadrature range")
        S0 = of.rft(f, 0.0, d, rmax, unit)
        tolc = (1e-6 if analytic else 5e-3) * S0
        worst = 0.0
        slow = cls in cf.TPL or cls in ("Matern", "Integral")
        for kl, k, dv in zip(list(KL) + (KL_FAR if analytic else []), ks, dens):
            if kl > 30 and not analytic:
                continue
            if d == 2 and ((slow and kl not in (0.0, 1.0)) or kl > 10):
                continue  # Bessel-weighted quadrature is expensive: d = 2 is decided by the window identity below
            ref = of.rft(f, k, d, rmax, unit)
            dev = abs(dv - ref) / S0
            worst = max(worst, dev)
            sev = "lt1e-2" if dev < 1e-2 else ("lt5e-2" if dev < 5e-2 else ("lt1e-1" if dev < 1e-1 else "ge1e-1"))
            r.close("spectral_density(k) == d-dimensional Fourier transform of the correlation", dv, ref, rtol=1e-6 if analytic else 1e-3, atol=tolc, kl=kl, sev=sev, **extra)
        r.notes["max_dev_rel_S0"] = worst
        # Gaussian-window Parseval identity (non oscillatory): decides the pair relation for all dims
        for a in (0.3 * unit, unit, 3.0 * unit):
            lhs = of.window_lhs(f, a, d, rmax, unit)
            rhs = of.window_rhs(lambda k: m.spectral_density(k), a, d, unit)
            dev = abs(rhs - lhs) / abs(lhs)
            sev = "lt1e-2" if dev < 1e-2 else ("lt5e-2" if dev < 5e-2 else ("lt1e-1" if dev < 1e-1 else "ge1e-1"))
            r.close("Gaussian-window Parseval identity between correlation and density", rhs, lhs, rtol=1e-6 if analytic else 5e-3, atol=1e-9, a=a / unit, sev=sev, **extra)
    # wave numbers given as python int / list of int / integer array / float scalar are the same numbers
    ki = [0, 1, 2, 7]
    kf = np.array(ki, dtype=float)
    for fname in ("spectral_density", "spectrum", "spectral_rad_pdf"):
        fn = getattr(m, fname)
        base = np.asarray(fn(kf), dtype=float)
        rt = 1e-13 if analytic else 1e-9  # (the numerical transform of one wave number differs from the one of an array by rounding)
        at = 1e-300 if analytic else 1e-9 * float(np.max(np.abs(base)))
        r.close(f"{fname}(list of int) == {fname}(float array)", np.asarray(fn(ki), dtype=float), base, rtol=rt, atol=at, **extra)
        r.close(f"{fname}(integer array) == {fname}(float array)", np.asarray(fn(np.array(ki)), dtype=float), base, rtol=rt, atol=at, **extra)
        if d > 1 or fname != "spectral_rad_pdf":
            r.close(f"{fname}(python int) == {fname}(float array)[i]", [float(np.asarray(fn(k_)).ravel()[0]) for k_ in ki[1:]], base[1:], rtol=rt, atol=at, **extra)
    # normalisation of the radial pdf
    if analytic or True:
        K = (60.0 if not analytic else 2000.0) / unit
        pts = sorted(set([x / unit for x in (0.1, 0.5, 1, 2, 5, 10, 30, 100, 300, 1000) if x / unit < K]))
        tot = integrate.quad(lambda k: float(m.spectral_rad_pdf(np.array([k]))[0]), 0, K, limit=200, points=pts, epsabs=1e-9, epsrel=1e-8)[0]
        slow_tail = cls in ("Exponential", "Matern", "Stable", "Cubic", "Linear", "Circular", "Spherical", "HyperSpherical", "SuperSpherical", "TPLSimple", "TPLExponential", "TPLStable", "Rational", "Integral", "JBessel")
        if analytic and cls in ("Gaussian",):
            r.close("radial pdf integrates to one", tot, 1.0, rtol=1e-6, **extra)
        elif analytic and m.has_cdf:
            r.close("radial pdf integrates to the cdf at the cut-off", tot, float(m.spectral_rad_cdf(K)), rtol=1e-6, atol=1e-8, **extra)
        else:
            r.true("radial pdf mass up to k = 60/l (2000/l) is at most one", tot <= 1.0 + (1e-6 if analytic else 2e-2), info=tot, **extra)
    # cdf / ppf
    r.eq("has_cdf / has_ppf agree with dist_func", [m.dist_func[1] is not None, m.dist_func[2] is not None], [bool(m.has_cdf), bool(m.has_ppf)], **extra)
    pdf_f, cdf_f, ppf_f = m.dist_func
    r.close("dist_func[0] is the radial pdf", pdf_f(ks[2:6]), pdf[2:6], rtol=0, atol=0, **extra)
    if m.has_cdf:
        kk = np.array([0.1, 0.5, 1.0, 2.0, 5.0, 10.0]) / unit
        c = np.asarray(cdf_f(kk), dtype=float)
        r.close("cdf(0) == 0", float(cdf_f(0.0)), 0.0, atol=1e-15, **extra)
        r.true("cdf increasing and below one", bool(np.all(np.diff(c) > 0) and np.all(c <= 1 + 1e-12)), info=c.tolist(), **extra)
        r.close("cdf(inf) == 1", float(cdf_f(1e9 / unit)), 1.0, rtol=0, atol=1e-6, **extra)
        h = 1e-4 * kk
        d1 = (np.asarray(cdf_f(kk + h)) - np.asarray(cdf_f(kk - h))) / (2 * h)
        d2 = (np.asarray(cdf_f(kk + h / 2)) - np.asarray(cdf_f(kk - h / 2))) / h
        r.close("cdf' == pdf (Richardson difference)", (4 * d2 - d1) / 3, m.spectral_rad_pdf(kk), rtol=1e-5, atol=1e-9 * unit, **extra)
        num = np.array([integrate.quad(lambda k: float(m.spectral_rad_pdf(np.array([k]))[0]), 0, x, limit=400, epsabs=1e-13, epsrel=1e-11)[0] for x in kk])
        r.close("cdf == integral of the pdf", c, num, rtol=1e-6, atol=1e-9, **extra)
    if m.has_ppf:
        u = np.array(U)
        q = np.asarray(ppf_f(u), dtype=float)
        r.true("ppf increasing and non-negative", bool(np.all(np.diff(q) > 0) and np.all(q >= 0)), info=q.tolist(), **extra)
        if m.has_cdf:
            r.close("cdf(ppf(u)) == u", cdf_f(q), u, rtol=1e-8, atol=1e-12, **extra)
            kk = np.array([0.1, 0.5, 1.0, 2.0, 5.0]) / unit
            r.close("ppf(cdf(k)) == k", ppf_f(cdf_f(kk)), kk, rtol=1e-7, atol=0, **extra)
        else:
            num = np.array([integrate.quad(lambda k: float(m.spectral_rad_pdf(np.array([k]))[0]), 0, x, limit=400)[0] for x in q[:-1]])
            r.close("integral of the pdf up to ppf(u) == u", num, u[:-1], rtol=1e-6, atol=1e-9, **extra)
    r.notes["secs"] = round(_time.time() - _t0, 1)
    return r.done(outcome=[round(float(x), 10) for x in dens[2:5]])


def case_history(case):
    """the spectral functions after in-place changes equal those of a freshly constructed model"""
    r = R()
    cls, opts = case["cls"], case["opts"]
    d0, d1 = case["d0"], case["d1"]
    C = getattr(gs, cls)
    kw = dict(var=1.3, len_scale=2.0, **opts)
    m = C(dim=d0, **kw)
    m.spectral_density(np.array([0.5]))  # use it once in the old dimension
    steps = [("dim", d1), ("len_scale", 0.7), ("rescale", 2.0)]
    cur = dict(dim=d0, len_scale=2.0, rescale=None)
    k = np.array([0.0, 0.2, 1.0, 3.0])
    for name, val in steps:
        try:
            setattr(m, name, val)
        except ValueError:
            return r.done(skip="optional argument not valid in the new dimension (decided by C14)")
        cur[name] = val
        try:
            # (TPL models: the variance follows len_scale / rescale, the raw variance is the state)
            fresh = C(dim=cur["dim"], var_raw=m.var_raw, len_scale=cur["len_scale"], rescale=cur["rescale"], **opts)
        except ValueError:
            return r.done(skip="optional argument not valid in the new dimension (decided by C14)")
        extra = {"cls": cls, "after": name, "d0": d0, "d1": d1}
        r.close("spectral_density after an in-place change == freshly constructed model", m.spectral_density(k), fresh.spectral_density(k), rtol=1e-12, atol=1e-300, **extra)
        r.close("spectral_rad_pdf after an in-place change == freshly constructed model", m.spectral_rad_pdf(k), fresh.spectral_rad_pdf(k), rtol=1e-12, atol=1e-300, **extra)
        r.close("spectrum after an in-place change == freshly constructed model", m.spectrum(k), fresh.spectrum(k), rtol=1e-12, atol=1e-300, **extra)
        r.eq("has_cdf / has_ppf after an in-place change", [bool(m.has_cdf), bool(m.has_ppf)], [bool(fresh.has_cdf), bool(fresh.has_ppf)], **extra)
        if m.has_cdf:
            r.close("cdf after an in-place change", m.spectral_rad_cdf(k), fresh.spectral_rad_cdf(k), rtol=1e-12, atol=0, **extra)
    # an optional argument changed in place after the spectral functions were evaluated at the same wave numbers
    alt = {"alpha": 0.9, "nu": {"Matern": 2.5, "Integral": 3.0}.get(cls, 4.0), "hurst": 0.3, "len_low": 0.3}
    for name in list(opts):
        if name not in alt:
            continue
        mm = C(dim=d1 if d1 in cf.valid_dims(cls, 4) else d0, **kw)
        mm.spectral_density(k), mm.spectrum(k), mm.spectral_rad_pdf(k)
        try:
            setattr(mm, name, alt[name])
            fr = C(dim=int(mm.dim), var_raw=mm.var_raw, len_scale=2.0, **dict(opts, **{name: alt[name]}))
        except ValueError:
            continue
        ex2 = {"cls": cls, "after": "opt:" + name, "d0": d0, "d1": d1}
        r.close("spectral_density after an optional argument was changed in place == freshly constructed model", mm.spectral_density(k), fr.spectral_density(k), rtol=1e-12, atol=1e-300, **ex2)
        r.close("spectral_rad_pdf after an optional argument was changed in place == freshly constructed model", mm.spectral_rad_pdf(k), fr.spectral_rad_pdf(k), rtol=1e-12, atol=1e-300, **ex2)
        r.close("spectrum after an optional argument was changed in place == freshly constructed model", mm.spectrum(k), fr.spectrum(k), rtol=1e-12, atol=1e-300, **ex2)
    # settings of the numerical transform belong to one model: changing them on one instance does not change
    # other (earlier or later) default models, and assigning None restores the defaults
    extra = {"cls": cls, "after": "hankel_kw", "d0": d0, "d1": d1}
    a = C(dim=d1, **kw) if d1 in cf.valid_dims(cls, 4) else C(dim=d0, **kw)
    other = C(dim=int(a.dim), **kw)
    ref = np.asarray(other.spectral_density(k), dtype=float).copy()
    ref_kw = dict(other.hankel_kw)
    a.hankel_kw = {"N": 10, "h": 0.05}
    a.spectral_density(k)
    r.close("spectral_density of an existing default model unchanged after another model's hankel_kw was set", other.spectral_density(k), ref, rtol=0, atol=0, **extra)
    later = C(dim=int(a.dim), **kw)
    r.eq("default hankel_kw of a model created later", dict(later.hankel_kw), ref_kw, **extra)
    r.close("spectral_density of a default model created later unchanged", later.spectral_density(k), ref, rtol=0, atol=0, **extra)
    other.dim = int(other.dim)  # re-setting the dimension rebuilds the transform from the model's own settings
    r.close("spectral_density after re-setting the dimension of the default model unchanged", other.spectral_density(k), ref, rtol=0, atol=0, **extra)
    a.hankel_kw = None
    r.eq("hankel_kw = None restores the defaults", dict(a.hankel_kw), ref_kw, **extra)
    r.close("spectral_density after hankel_kw = None == default model", a.spectral_density(k), ref, rtol=0, atol=0, **extra)
    return r.done(outcome=[cls, d0, d1])


def case_effdim(case):
    """lat-lon and spatio-temporal (metric) models have the spectral functions of their effective dimension"""
    r = R()
    cls, opts, kw = case["cls"], case["opts"], case["kw"]
    m = getattr(gs, cls)(var=1.4, len_scale=1.3, **kw, **opts)
    d = int(m.dim)
    fresh = getattr(gs, cls)(dim=d, var=1.4, len_scale=1.3, **opts)
    extra = {"cls": cls, "dim": d, **kw}
    k = np.array([0.0, 0.05, 0.5, 1.0, 3.0, 10.0]) * fresh.rescale / 1.3
    for fname in ("spectral_density", "spectrum", "spectral_rad_pdf"):
        r.close(f"{fname} of a lat-lon / temporal model == {fname} of the plain model of the effective dimension", getattr(m, fname)(k), getattr(fresh, fname)(k), rtol=1e-10, atol=1e-300, **extra)
    r.eq("has_cdf / has_ppf as for the plain model of the effective dimension", [bool(m.has_cdf), bool(m.has_ppf)], [bool(fresh.has_cdf), bool(fresh.has_ppf)], **extra)
    if m.has_cdf:
        r.close("spectral_rad_cdf == that of the plain model of the effective dimension", m.spectral_rad_cdf(k), fresh.spectral_rad_cdf(k), rtol=1e-12, atol=1e-300, **extra)
    return r.done(outcome=[cls, d, str(kw)])


GROUPS = {"density": case_density, "history": case_history, "effdim": case_effdim}


def run(chk):
    tier, seed = chk.tier, chk.seed
    cases = []
    for cls in cf.SHIPPED:
        for d in cf.valid_dims(cls):
            for io, opts in enumerate(cf.opt_grid(cls, d, tier)):
                # quick: the pair alternates with the dimension, so every optional-argument set sees both pairs
                # (TPL models with a lower cut-off get both in every dimension: the cut-off is rescaled too)
                both = tier != "quick" or (cls in cf.TPL and opts.get("len_low", 0.0) > 0 and d != 2) or cls in ("Gaussian", "Exponential")
                for ls, rs in ([(0.5, None), (3.0, 2.0)] if both else [(0.5, None) if (d + io) % 2 else (3.0, 2.0)]):  # (never len_scale == rescale: a rescaled length of 1 hides scale mistakes)
                    cases.append({"cls": cls, "dim": d, "opts": opts, "len_scale": ls, "rescale": rs})
                # very large and very small length scales: thresholds on a wave number instead of k * length show here
                if tier != "quick" or (cls in cf.TPL or cls in ("Gaussian", "Exponential", "Matern", "Integral")) and opts == cf.opt_grid(cls, d, tier)[-1]:
                    for ls in (40.0, 0.02):
                        cases.append({"cls": cls, "dim": d, "opts": opts, "len_scale": ls, "rescale": None})
    chk.run("density", case_density, cases, rule="17 classes x dim 1-3 x optional-argument grid (both bounds) x (len_scale, rescale; also len_scale 40 and 0.02) x wave numbers k l in {0, 1e-9, 1e-6, 1e-3, 1e-2, .1, .5, 1, 2, 5, 10, 30 (, 100, 1000 analytic)} x probabilities {1e-6 .. 1-1e-6}: density vs independent radial Fourier transform and Gaussian-window Parseval identity, pdf / cdf / ppf relations", max_skip_frac=0.4, chunk=2)
    hc = [{"cls": cls, "opts": cf.opt_grid(cls, max(d0, d1), "quick")[-1] if cls not in ("JBessel",) else {"nu": 3.0}, "d0": d0, "d1": d1} for cls in cf.SHIPPED for d0 in cf.valid_dims(cls) for d1 in cf.valid_dims(cls) if d0 != d1]
    ec = []
    for c in cf.SHIPPED:
        for kw in ({"temporal": True, "spatial_dim": 1}, {"temporal": True, "spatial_dim": 2}, {"latlon": True}, {"latlon": True, "geo_scale": 3.0}, {"latlon": True, "temporal": True}):
            eff = 3 + int(kw.get("temporal", False)) if kw.get("latlon") else kw["spatial_dim"] + 1
            if eff not in cf.valid_dims(c, 4):
                continue
            for opts in cf.opt_grid(c, eff, "quick")[:2]:
                ec.append({"cls": c, "opts": opts, "kw": kw})
    chk.run("effdim", case_effdim, ec, rule="class x {temporal with spatial_dim 1-2, lat-lon (geo_scale 1, 3), lat-lon + temporal} x optional arguments: spectral density / spectrum / radial pdf / cdf equal those of the plain model of the effective dimension", chunk=4)
    chk.run("history", case_history, hc, rule="class x every ordered pair of valid dimensions: model used in dim d0, then dim := d1, len_scale := x, rescale := y in place; spectral density / pdf / spectrum / cdf after each step equal a freshly constructed model", chunk=4)
    chk.assume("accuracy classes fixed in advance: analytic spectral densities 1e-6 S(0); default numerical Hankel transform 5e-3 S(0) for k l <= 30 (its far tail is judged only through the pdf mass bound)")
    chk.assume("the correlation in the transform integrals is the library's correlation(), decided against closed forms by C03; heavy-tailed parameter sets whose transform is not absolutely convergent are skipped (counted); JBessel is judged in the inverse direction")
