"""C05 - kriging estimates and variances solve the kriging equations.

Small-scope exhaustive enumeration: kriging variant x model x coordinate configuration
(dim 1-3, lat-lon, +time; isotropic / anisotropic+rotated) x all k-subsets of a small point pool
as conditioning layout; inside each case the complete option product (exact, measurement
error kinds, pseudo-inverse types, chunk sizes, mesh types, data vectors e_i / constant /
drift / generic, all permutations of <= 4 data and targets).  Oracle: dense solution of the
documented system (gsverif.krigref).
"""
import itertools
import math
import warnings

import numpy as np

import gstools as gs

from .. import krigref as kr
from ..core import R, generic_values

LEVEL = "exploration"
warnings.simplefilter("ignore")

MODELS = {
    "Gaussian": {},
    "Exponential": {},
    "Spherical": {},
    "Matern": {"nu": 1.5},
    "Stable": {"alpha": 1.3},
    "Cubic": {},
    "Rational": {"alpha": 2.0},
    "Integral": {"nu": 2.0},
    "HyperSpherical": {},
    "SuperSpherical": {"nu": 2.0},
    "TPLSimple": {"nu": 3.0},
    "TPLStable": {"hurst": 0.5, "alpha": 1.5},
    "TPLGaussian": {"hurst": 0.5},
    "TPLExponential": {"hurst": 0.4},
    "Circular": {},
    "Linear": {},
    "JBessel": {"nu": 2.0},
}


def pool(kind, sdim, gen):
    """conditioning point pool (lattice + one generic off-lattice point) and target set"""
    g = gen
    if kind == "euclid" and sdim == 1:
        P = np.array([[0.0, 1.5, 3.0, 4.5, 6.0, 2.0 + g[0]]])
        T = np.array([[0.0, 1.5, 3.0, 0.7, 2.2 + g[1], 5.1, 7.5, -1.0]])
        ax = [np.array([0.0, 1.5, 3.0, 5.1])]
    elif kind == "euclid" and sdim == 2:
        lat = np.array(list(itertools.product([0.0, 1.5, 3.0], repeat=2))).T
        P = np.hstack([lat, [[0.6 + g[0]], [2.1 + g[1]]]])
        T = np.hstack([lat[:, ::2], [[0.4, 2.0, 3.6], [1.0 + g[1], 0.2, 2.9]]])
        ax = [np.array([0.0, 1.5, 2.0]), np.array([0.0, 3.0])]
    elif kind == "euclid" and sdim == 3:
        lat = np.array(list(itertools.product([0.0, 2.0], repeat=3))).T
        P = np.hstack([lat, [[1.0, 0.5 + g[0]], [1.0, 1.7], [1.0, 0.3 + g[1]]]])
        T = np.hstack([lat[:, ::3], [[0.4, 2.0, 1.2], [1.0, 0.2, 2.4], [0.6, 1.5, 0.1 + g[1]]]])
        ax = [np.array([0.0, 1.0]), np.array([0.0, 2.0]), np.array([0.5, 2.0])]
    elif kind == "time":  # 2 space + time
        lat = np.array(list(itertools.product([0.0, 2.0], [0.0, 2.0], [0.0, 1.0]))).T
        P = np.hstack([lat, [[1.0 + g[0]], [0.6], [0.4 + 0.2 * g[1]]]])
        T = np.hstack([lat[:, ::3], [[0.4, 2.0, 1.2], [1.0, 0.2, 2.4], [0.6, 1.5, 0.1]]])
        ax = [np.array([0.0, 1.0]), np.array([0.0, 2.0]), np.array([0.0, 1.0])]
    elif kind == "latlon":
        lat = np.array(list(itertools.product([-60.0, 0.0, 45.0], [-120.0, 0.0, 100.0]))).T
        P = np.hstack([lat, [[20.0 + 10 * g[0]], [40.0 + 10 * g[1]]]])
        T = np.hstack([lat[:, ::2], [[90.0, -90.0, 10.0, 33.0], [0.0, 50.0, 180.0, -179.0]]])
        ax = [np.array([-60.0, 10.0, 90.0]), np.array([-120.0, 180.0])]
    elif kind == "latlon+time":
        lat = np.array(list(itertools.product([-60.0, 45.0], [-120.0, 100.0], [0.0, 1.0]))).T
        P = np.hstack([lat, [[20.0 + 10 * g[0]], [40.0], [0.4]]])
        T = np.hstack([lat[:, ::3], [[90.0, 10.0, 33.0], [0.0, 180.0, -179.0], [0.5, 0.2, 1.3]]])
        ax = [np.array([-60.0, 90.0]), np.array([-120.0, 180.0]), np.array([0.0, 1.0])]
    return P, T, ax


def geo_of(kind, sdim, aniso):
    # aniso: False | True (anisotropic + rotated) | "axis" (anisotropic along the coordinate axes, all angles 0)
    #        | "zrot" (3-D: anisotropic, first rotation angle exactly zero, the others not)
    rot = aniso is True
    if kind == "euclid":
        if aniso == "zrot":
            return kr.Geo("euclid", sdim, anis=[0.6, 1.4][: sdim - 1], angles=[0.0, -0.3, 0.8][: sdim * (sdim - 1) // 2])
        return kr.Geo("euclid", sdim, anis=[0.6, 1.4][: sdim - 1] if aniso else None, angles=[0.5, -0.3, 0.8][: sdim * (sdim - 1) // 2] if rot else None)
    if kind == "time":
        return kr.Geo("euclid+time", 2, anis=[0.6] if aniso else None, angles=[0.5] if rot else None, t_anis=0.5 if aniso else 1.0)
    if kind == "latlon":
        return kr.Geo("latlon", 3, geo_scale=gs.KM_SCALE if aniso else 1.0)
    return kr.Geo("latlon+time", 3, geo_scale=gs.KM_SCALE if aniso else 1.0, t_anis=0.25 if aniso else 1.0)


def len_scale_of(kind, geo):
    if kind.startswith("latlon"):
        return 0.8 * geo.geo_scale
    return 2.0


EXTV = ("ExtDrift", "ExtDrift2", "DriftExt")  # variants with external drift rows


def DRIFT_EXT_FN(*p):
    return 0.3 * p[0] - 0.1 * p[-1]


def ext_values(variant, n, nt):
    """external drift at the conditioning pool and at the targets (two rows for ExtDrift2)"""
    c1 = np.array([0.3, 1.1, 0.7, 1.9, 0.2, 1.4, 0.9, 0.5, 1.6, 1.2])[:n]
    t1 = 0.25 + 0.1 * np.arange(nt) ** 1.3
    if variant != "ExtDrift2":
        return c1, t1
    c2 = np.array([1.2, 0.1, 0.8, 0.4, 1.7, 0.6, 1.0, 0.2, 1.5, 0.9])[:n]
    t2 = 0.9 - 0.07 * np.arange(nt) ** 1.1
    return np.vstack([c1, c2]), np.vstack([t1, t2])


DATA = np.array([0.47, 1.56, -0.74, 1.0, 2.2, 0.3, 1.9])


def _mean_trend_norm(proc):
    mean = {"none": None, "const": 0.6, "call": (lambda *p: 0.3 + 0.01 * p[0])}[proc[0]]
    trend = {"none": None, "call": (lambda *p: 0.2 - 0.02 * p[0] + 0.01 * p[-1])}[proc[1]]
    norm = {"none": None, "ln": gs.normalizer.LogNormal(), "bc": gs.normalizer.BoxCox(lmbda=0.5)}[proc[2]]
    return mean, trend, norm


def build_pair(case, cond_pos, cond_val, *, exact, cond_err, pinv, proc, cond_ext=None, nugget=None):
    """returns (gstools Krige object, reference solver)"""
    variant, cls = case["variant"], case["cls"]
    opts = MODELS[cls]
    geo = geo_of(case["kind"], case["sdim"], case["aniso"])
    ls = len_scale_of(case["kind"], geo)
    nug = case["nugget"] if nugget is None else nugget
    model = kr.make_gs_model(cls, opts, 1.3, ls, nug, geo)
    mean, trend, norm = _mean_trend_norm(proc)
    fd = geo.field_dim
    # reference first: numerically singular systems are not handed to the library at all
    rv = _ref_only(case, cond_pos, cond_val, exact, cond_err, proc, cond_ext, nug, model, geo, ls)
    if not (rv.cond < 1e10):
        return None, rv
    pkw = {}
    if pinv == "none":
        pkw["pseudo_inv"] = False
    elif pinv == "callable":
        pkw["pseudo_inv_type"] = np.linalg.pinv
    else:
        pkw["pseudo_inv_type"] = pinv
    common = dict(normalizer=norm, trend=trend, exact=exact, cond_err=cond_err, **pkw)
    drift_fns = []
    unb = True
    if variant == "Simple":
        k = gs.krige.Simple(model, cond_pos, cond_val, mean=mean, **common)
        unb = False
    elif variant == "Ordinary":
        k = gs.krige.Ordinary(model, cond_pos, cond_val, **common)
        mean = None
    elif variant == "Universal":
        k = gs.krige.Universal(model, cond_pos, cond_val, "linear", **common)
        drift_fns = [(lambda *p, i=i: p[i]) for i in range(fd)]
        mean = None
    elif variant == "UniversalCustom":
        fns = [lambda *p: np.sin(0.05 * p[0]) + 0.0 * p[-1]]
        k = gs.krige.Universal(model, cond_pos, cond_val, fns, **common)
        drift_fns = fns
        mean = None
    elif variant == "UniversalQuad":
        k = gs.krige.Universal(model, cond_pos, cond_val, "quadratic", **common)
        drift_fns = [lambda *p: p[0], lambda *p: p[0] * p[0]]
        mean = None
    elif variant in ("ExtDrift", "ExtDrift2"):
        k = gs.krige.ExtDrift(model, cond_pos, cond_val, cond_ext, **common)
        mean = None
    elif variant == "DriftExt":  # functional drift and external drift in one system
        k = gs.Krige(model, cond_pos, cond_val, drift_functions=[DRIFT_EXT_FN], ext_drift=cond_ext, **common)
        mean = None
    elif variant == "Detrended":
        tr = trend if trend is not None else (lambda *p: 0.1 + 0.03 * p[0])
        k = gs.krige.Detrended(model, cond_pos, cond_val, tr, exact=exact, cond_err=cond_err, **pkw)
        trend, norm, mean, unb = tr, None, None, False
    elif variant == "GenericDrift":
        fns = [lambda *p: 1.0 + 0.0 * p[0], lambda *p: p[0]]
        k = gs.Krige(model, cond_pos, cond_val, drift_functions=fns, unbiased=False, mean=mean, **common)
        drift_fns, unb = fns, False
    return k, rv


def _ref_only(case, cond_pos, cond_val, exact, cond_err, proc, cond_ext, nug, model, geo, ls):
    variant, cls = case["variant"], case["cls"]
    opts = MODELS[cls]
    mean, trend, norm = _mean_trend_norm(proc)
    fd = geo.field_dim
    drift_fns, unb = [], True
    if variant == "Simple":
        unb = False
    elif variant == "Ordinary":
        mean = None
    elif variant == "Universal":
        drift_fns, mean = [(lambda *p, i=i: p[i]) for i in range(fd)], None
    elif variant == "UniversalCustom":
        drift_fns, mean = [lambda *p: np.sin(0.05 * p[0]) + 0.0 * p[-1]], None
    elif variant == "UniversalQuad":
        drift_fns, mean = [lambda *p: p[0], lambda *p: p[0] * p[0]], None
    elif variant in ("ExtDrift", "ExtDrift2"):
        mean = None
    elif variant == "DriftExt":
        drift_fns, mean = [DRIFT_EXT_FN], None
    elif variant == "Detrended":
        trend = trend if trend is not None else (lambda *p: 0.1 + 0.03 * p[0])
        norm, mean, unb = None, None, False
    elif variant == "GenericDrift":
        drift_fns, unb = [lambda *p: 1.0 + 0.0 * p[0], lambda *p: p[0]], False
    return kr.RefKrige(cls, opts, 1.3, ls, nug, geo, cond_pos, cond_val, unbiased=unb, drift_fns=drift_fns, cond_ext=cond_ext if variant in EXTV else None, mean=mean, trend=trend, normalizer=norm, exact=exact, cond_err=cond_err, gs_model=model)


def n_min(variant, fd):
    return {"Simple": 1, "Ordinary": 2, "Universal": fd + 2, "UniversalCustom": 3, "UniversalQuad": 4, "ExtDrift": 3, "ExtDrift2": 4, "DriftExt": 4, "Detrended": 1, "GenericDrift": 3}[variant]


def case_krige(case):
    r = R()
    variant = case["variant"]
    gen = case["gen"]
    P, T, ax = pool(case["kind"], case["sdim"], gen)
    idx = case["layout"]
    cp = P[:, idx]
    n = len(idx)
    extra = {"variant": variant, "cls": case["cls"], "kind": case["kind"]}
    z = DATA[:n].copy()
    nt = T.shape[1]
    ext_c, ext_t = ext_values(variant, n, nt)
    judged = 0

    def run_pair(k, ref, tp, what, ext=None, **kw):
        nonlocal judged
        if k is None or not (ref.cond < 1e10):
            return None
        kwargs = dict(kw)
        if variant in EXTV:
            kwargs["ext_drift"] = ext
        if isinstance(tp, np.ndarray):
            # a request at positions that agree with the targets within numpy.allclose comes first
            k(tp * (1 + 3e-6), **kwargs)
        f, v = k(tp, **kwargs)
        w, est, var = ref.solve(tp, ext)
        tol = ref.tol(float(np.abs(ref.ztilde()).max()))
        r.close(f"{what}: kriging field == dense solution of the kriging system", f, ref.post(est, tp), rtol=1e-7, atol=tol, **extra)
        r.close(f"{what}: kriging variance == sill - k^T K^-1 k (clipped at 0)", v, np.maximum(var, 0.0), rtol=1e-7, atol=1e3 * kr.EPS * ref.cond * ref.sill + 1e-12, **extra)
        judged += 1
        return f, v

    base = dict(exact=False, cond_err="nugget", pinv="pinv", proc=("const" if variant in ("Simple", "GenericDrift") else "none", "none", "none"))
    # (a) option product on the generic data vector
    for exact, cerr in [(False, "nugget"), (True, "nugget"), (False, 0.05), (False, "vec")]:
        ce = (0.02 + 0.03 * np.arange(n)) if cerr == "vec" else cerr
        for pinv in ["pinv", "pinvh", "none", "callable"]:
            opt = dict(base, exact=exact, cond_err=ce, pinv=pinv)
            k, ref = build_pair(case, cp, z, cond_ext=ext_c, **opt)
            run_pair(k, ref, T, f"exact={exact} cond_err={cerr} pinv={pinv}", ext=ext_t)
    k, ref = build_pair(case, cp, z, cond_ext=ext_c, **base)
    if k is None:
        return r.done(skip="kriging system numerically singular (cond > 1e10)")
    res = run_pair(k, ref, T, "base", ext=ext_t)
    f0, v0 = res
    # the object owns its conditions: arrays handed over by the caller may be reused by the caller afterwards
    a_pos, a_val, a_ext = np.array(cp, dtype=np.double), np.array(z, dtype=np.double), np.array(ext_c, dtype=np.double)
    ka, _ = build_pair(case, a_pos, a_val, cond_ext=a_ext, **base)
    if ka is not None:
        kwa = {"ext_drift": ext_t} if variant in EXTV else {}
        fa0, va0 = ka(T, **kwa)
        a_val += 3.7
        a_pos *= 1.5
        a_ext -= 0.4
        fa1, va1 = ka(T, **kwa)
        r.close("result unchanged when the caller reuses the arrays it passed as conditions (field)", fa1, fa0, rtol=0, atol=0, **extra)
        r.close("result unchanged when the caller reuses the arrays it passed as conditions (variance)", va1, va0, rtol=0, atol=0, **extra)
        r.close("object built from caller arrays == base object", fa0, f0, rtol=1e-12, atol=1e-13, **extra)
    # (b) linearity: data = unit vectors gives the weights; constants / drifts reproduced
    W, _, _ = ref.solve(T, ext_t)
    if base["proc"][0] == "none" or True:
        for i in range(n):
            e = np.zeros(n)
            e[i] = 1.0
            ki, refi = build_pair(case, cp, e, cond_ext=ext_c, **dict(base, proc=("none", "none", "none")))
            kw = {"ext_drift": ext_t} if variant in EXTV else {}
            fi = ki(T, return_var=False, **kw)
            if variant == "Detrended":  # affine in the data (the trend is removed and added back)
                r.close("data = unit vector e_i: estimate == dense solution", fi, refi.post(refi.solve(T, ext_t)[1], T), rtol=1e-7, atol=ref.tol(1.0), i=i, **extra)
            else:
                r.close("data = unit vector e_i gives the kriging weights of point i", fi, W[i], rtol=1e-7, atol=ref.tol(1.0), i=i, **extra)
    if variant in ("Ordinary", "Universal", "UniversalCustom", "UniversalQuad") + EXTV:
        kc, refc = build_pair(case, cp, np.full(n, 3.25), cond_ext=ext_c, **base)
        kw = {"ext_drift": ext_t} if variant in EXTV else {}
        r.close("unbiased variant reproduces a constant", kc(T, return_var=False, **kw), np.full(nt, 3.25), rtol=1e-7, atol=ref.tol(3.25), **extra)
    if variant in ("Universal", "UniversalQuad", "UniversalCustom", "DriftExt"):
        kw = {"ext_drift": ext_t} if variant in EXTV else {}
        for j, fn in enumerate(ref.drift_fns):
            zc = np.asarray(fn(*cp), dtype=float) * np.ones(n)
            kd, refd = build_pair(case, cp, zc, cond_ext=ext_c, **base)
            r.close("universal kriging reproduces its drift function", kd(T, return_var=False, **kw), np.asarray(fn(*T), dtype=float) * np.ones(nt), rtol=1e-6, atol=ref.tol(float(np.abs(zc).max())) * 10, drift=j, **extra)
    if variant in EXTV:
        for j in range(np.atleast_2d(ext_c).shape[0]):
            kd, refd = build_pair(case, cp, np.atleast_2d(ext_c)[j].copy(), cond_ext=ext_c, **base)
            r.close("external drift kriging reproduces its drift", kd(T, ext_drift=ext_t, return_var=False), np.atleast_2d(ext_t)[j], rtol=1e-6, atol=ref.tol(2.0) * 10, **extra)
    # (c) chunking / mesh type / return_var / only_mean / get_mean
    kw = {"ext_drift": ext_t} if variant in EXTV else {}
    for cs in [1, 2, nt - 1, nt + 3]:
        fc, vc = k(T, chunk_size=cs, **kw)
        r.close("result independent of chunk_size (field)", fc, f0, rtol=1e-10, atol=1e-12, chunk=cs, **extra)
        r.close("result independent of chunk_size (variance)", vc, v0, rtol=1e-10, atol=1e-12, chunk=cs, **extra)
    r.close("return_var=False gives the same field", k(T, return_var=False, **kw), f0, rtol=1e-12, atol=1e-13, **extra)
    g = np.array([a.ravel() for a in np.meshgrid(*ax, indexing="ij")])
    eg = 0.3 + 0.05 * np.arange(g.shape[1])
    if variant == "ExtDrift2":
        eg = np.vstack([eg, 1.0 - 0.03 * np.arange(g.shape[1]) ** 1.2])
    kws = {"ext_drift": eg} if variant in EXTV else {}
    fs, vs = k(ax, mesh_type="structured", **kws)
    fu, vu = k(g, **kws)
    r.close("structured mesh == same points unstructured (field)", fs.ravel(), fu, rtol=1e-10, atol=1e-12, **extra)
    r.close("structured mesh == same points unstructured (variance)", vs.ravel(), vu, rtol=1e-10, atol=1e-12, **extra)
    if variant in ("Simple", "Ordinary"):
        me = ref.mean_estimate()
        gm = k.get_mean(post_process=False)
        r.close("get_mean == kriged mean (rhs with zero covariance)", gm, me, rtol=1e-7, atol=ref.tol(2.0), **extra)
        gmp = k.get_mean()
        r.close("get_mean(post_process) == denormalize(mean + kriged mean)", gmp, me + (ref._ev(ref.mean, cp) if not callable(ref.mean) else 0.0), rtol=1e-7, atol=ref.tol(2.0), **extra)
        fm = k(T, only_mean=True)
        r.close("only_mean field == mean estimate everywhere", fm, np.full(nt, gmp), rtol=1e-7, atol=ref.tol(2.0), **extra)
    elif variant in ("Universal", "UniversalQuad") + EXTV:
        _, em, _ = ref.solve(T, ext_t, only_mean=True)
        fm = k(T, only_mean=True, **kw)
        r.close("only_mean field == drift part of the kriging system", fm, ref.post(em, T), rtol=1e-6, atol=ref.tol(2.0) * 10, **extra)
    # (d) permutations of the data (all, n <= 4) and of four targets (all)
    if n <= case.get("perm_n", 4):
        for perm in itertools.permutations(range(n)):
            perm = list(perm)
            kp, _ = build_pair(case, cp[:, perm], z[perm], cond_ext=ext_c[..., perm], **base)
            fp, vp = kp(T, **kw)
            r.close("result independent of the order of conditioning points (field)", fp, f0, rtol=1e-7, atol=ref.tol(2.0), **extra)
            r.close("result independent of the order of conditioning points (variance)", vp, v0, rtol=1e-7, atol=ref.tol(1.0), **extra)
    for perm in itertools.permutations(range(4)):
        perm = list(perm)
        kwp = {"ext_drift": ext_t[..., perm]} if variant in EXTV else {}
        fp, vp = k(T[:, perm], **kwp)
        r.close("result independent of the order of target points", fp, f0[perm], rtol=1e-10, atol=1e-12, **extra)
    # (e) mean / trend / normalizer pipeline
    if variant in ("Simple", "Ordinary", "Universal") + EXTV:
        zp = np.abs(z) + 0.4
        for proc in [("const" if variant == "Simple" else "none", "call", "none"), ("call" if variant == "Simple" else "none", "none", "ln"), ("none", "call", "bc")]:
            if proc[1] == "call" and proc[2] != "none":
                zz = zp + 1.0
            else:
                zz = zp
            kk, rr = build_pair(case, cp, zz, cond_ext=ext_c, **dict(base, proc=proc))
            if kk is not None and np.all(np.isfinite(rr.ztilde())):
                fp, vp = kk(T, **kw)
                w_, est_, var_ = rr.solve(T, ext_t)
                exp = rr.post(est_, T)
                ok = np.isfinite(exp)
                r.close("mean/trend/normalizer: field == trend + denormalize(mean + estimate on normalised detrended data)", np.where(ok, fp, np.nan), exp, rtol=1e-6, atol=rr.tol(3.0) * 10, proc=list(proc), **extra)
                fr = kk(T, post_process=False, return_var=False, **kw)
                r.close("post_process=False returns the raw estimate", fr, est_, rtol=1e-6, atol=rr.tol(3.0) * 10, proc=list(proc), **extra)
    return r.done(outcome=[round(float(x), 7) for x in f0[:3]], sub={"kriging_systems_judged": judged})


# ---------------------------------------------------------------------------------------------
# histories: the inverted kriging matrix / isometrised conditioning positions belong to the
# *current* model and conditions after every documented refresh (set_condition)
MOPS = {
    "anis": lambda m, d: setattr(m, "anis", [0.35, 1.7][: d - 1] + ([float(m.anis[-1])] if m.temporal else [])),
    "angles": lambda m, d: setattr(m, "angles", [1.1, 0.4, -0.6][: d * (d - 1) // 2]),
    "len": lambda m, d: setattr(m, "len_scale", 3.1),
    "var": lambda m, d: setattr(m, "var", 0.7),
    "nugget": lambda m, d: setattr(m, "nugget", 0.2),
    # time anisotropy of space-time models (also lat-lon + time): the last ratio
    "tanis": lambda m, d: setattr(m, "anis", [float(a) for a in m.anis[:-1]] + [3.0]),
}


def case_refresh(case):
    """apply a history of in-place model changes and set_condition calls; after each refresh the
    object must equal the dense solution for the present model and conditions"""
    r = R()
    variant, kind, sdim = case["variant"], case["kind"], case["sdim"]
    P, T, ax = pool(kind, sdim, case["gen"])
    idx = list(case["layout"])
    n = len(idx)
    z = DATA[:n].copy()
    ext_all, ext_t = ext_values(variant, 10, T.shape[1])
    st = {"var": 1.3, "ls": len_scale_of(kind, geo_of(kind, sdim, case["aniso"])), "nug": case["nugget"], "idx": idx, "z": z}
    geo = geo_of(kind, sdim, case["aniso"])
    proc = ("const" if variant in ("Simple", "GenericDrift") else "none", "none", "none")
    base = dict(exact=bool(case.get("exact", False)), cond_err="nugget", pinv="pinv", proc=proc)
    k, ref0 = build_pair(case, P[:, idx], z, cond_ext=ext_all[..., idx], **base)
    if k is None:
        return r.done(skip="kriging system numerically singular (cond > 1e10)")
    kw = {"ext_drift": ext_t} if variant in EXTV else {}
    k(T, **kw)  # warm start: every cache is filled for the initial setup
    extra = {"variant": variant, "kind": kind}
    judged = 0
    for step, op in enumerate(case["hist"]):
        if op in MOPS:
            if op in ("anis", "angles") and (geo.kind.startswith("latlon") or sdim == 1):
                return r.done(skip="no anisotropy / rotation in this geometry")
            if op == "tanis" and not geo.temporal:
                return r.done(skip="no time axis in this geometry")
            MOPS[op](k.model, sdim)
            if op == "anis":
                geo.anis = [0.35, 1.7][: sdim - 1]
            elif op == "angles":
                geo.angles = [1.1, 0.4, -0.6][: sdim * (sdim - 1) // 2]
            elif op == "len":
                st["ls"] = 3.1
            elif op == "var":
                st["var"] = 0.7
            elif op == "nugget":
                st["nug"] = 0.2
            elif op == "tanis":
                geo.t_anis = 3.0
            continue
        if op == "refresh":
            k.set_condition()
        elif op == "newval":
            st["z"] = st["z"][::-1] * 0.5 + 0.25
            k.set_condition(cond_val=st["z"])
        elif op == "newpos":
            st["idx"] = [(i + 1) % P.shape[1] for i in st["idx"]]
            st["z"] = st["z"] + 0.1
            ekw = {"ext_drift": ext_all[..., st["idx"]]} if variant in EXTV else {}
            k.set_condition(P[:, st["idx"]], st["z"], **ekw)
        # reference for the present state
        c2 = dict(case, nugget=st["nug"])
        mean, trend, norm = _mean_trend_norm(proc)
        model = kr.make_gs_model(case["cls"], MODELS[case["cls"]], st["var"], st["ls"], st["nug"], geo)
        ref = _ref_state(c2, P[:, st["idx"]], st["z"], proc, ext_all[..., st["idx"]], st, model, geo)
        if not (ref.cond < 1e10):
            return r.done(skip="kriging system numerically singular (cond > 1e10)")
        if case.get("mode") == "exact":  # used by C06: exactness at the present conditioning locations
            cpn = P[:, st["idx"]]
            fe, ve = k(cpn, **({"ext_drift": ext_all[..., st["idx"]]} if variant in EXTV else {}))
            tol = max(1e-8, 1e2 * ref.tol(float(np.abs(st["z"]).max())))
            r.close("after refresh: field at a conditioning location == conditioning value", fe, st["z"], rtol=1e-8, atol=tol, step=step, **extra)
            r.true("after refresh: kriging variance at a conditioning location == 0", bool(np.all(np.abs(ve) <= 1e-8 * ref.sill + 1e2 * kr.EPS * ref.cond * ref.sill)), info=ve.tolist(), step=step, **extra)
            judged += 1
            continue
        f, v = k(T, **kw)
        w, est, var = ref.solve(T, ext_t)
        tol = ref.tol(float(np.abs(ref.ztilde()).max()))
        r.close("after refresh: kriging field == dense solution for the present model and conditions", f, ref.post(est, T), rtol=1e-7, atol=tol, step=step, **extra)
        r.close("after refresh: kriging variance == dense solution for the present model and conditions", v, np.maximum(var, 0.0), rtol=1e-7, atol=1e3 * kr.EPS * ref.cond * ref.sill + 1e-12, step=step, **extra)
        judged += 1
    return r.done(outcome=judged, sub={"kriging_systems_judged": judged})


def _ref_state(case, cond_pos, cond_val, proc, cond_ext, st, model, geo):
    variant, cls = case["variant"], case["cls"]
    mean, trend, norm = _mean_trend_norm(proc)
    fd = geo.field_dim
    drift_fns, unb = [], True
    if variant == "Simple":
        unb = False
    elif variant == "Ordinary":
        mean = None
    elif variant == "Universal":
        drift_fns, mean = [(lambda *p, i=i: p[i]) for i in range(fd)], None
    elif variant in ("ExtDrift", "ExtDrift2"):
        mean = None
    elif variant == "DriftExt":
        drift_fns, mean = [DRIFT_EXT_FN], None
    elif variant == "Detrended":
        trend = lambda *p: 0.1 + 0.03 * p[0]
        norm, mean, unb = None, None, False
    elif variant == "GenericDrift":
        drift_fns, unb = [lambda *p: 1.0 + 0.0 * p[0], lambda *p: p[0]], False
    return kr.RefKrige(cls, MODELS[cls], st["var"], st["ls"], st["nug"], geo, cond_pos, cond_val, unbiased=unb, drift_fns=drift_fns, cond_ext=cond_ext if variant in EXTV else None, mean=mean, trend=trend, normalizer=norm, exact=bool(case.get("exact", False)), cond_err="nugget", gs_model=model)


GROUPS = {"krige": case_krige, "refresh": case_refresh}


def layouts(P, nmin, nmax, full):
    n = P.shape[1]
    out = []
    for k in range(nmin, nmax + 1):
        combs = list(itertools.combinations(range(n), k))
        if not full:
            combs = [combs[len(combs) // 2]] if k not in (nmin, nmax) else [combs[0 if k == nmin else -1]]
        out += [list(c) for c in combs]
    # de-duplicate
    seen, res = set(), []
    for c in out:
        if tuple(c) not in seen:
            seen.add(tuple(c))
            res.append(c)
    return res


def refresh_cases(tier, gen, mops, depth, nugget=None, mode=None, exact=False):
    cops = ["refresh", "newval", "newpos"]
    hists = []
    for L in range(1, depth + 1):
        for h in itertools.product(mops + cops, repeat=L):
            if h[-1] in cops:  # the documented refresh ends every judged history
                hists.append(list(h))
    hcases = []
    hvariants = ["Simple", "Ordinary", "Universal", "ExtDrift", "ExtDrift2", "DriftExt", "Detrended", "GenericDrift"]
    for kind, sdim in [("euclid", 2), ("euclid", 3), ("time", 2), ("latlon", 3), ("latlon+time", 3)]:
        P, T, ax = pool(kind, sdim, gen)
        for variant in hvariants if tier != "quick" or (kind, sdim) == ("euclid", 2) else ["Simple", "Universal", "DriftExt"]:
            nm = max(n_min(variant, geo_of(kind, sdim, False).field_dim), 4)
            for cls in ["Exponential"] if tier == "quick" else ["Exponential", "Gaussian", "Matern"]:
                for aniso in (False, True):
                    for h in hists:
                        c = {"variant": variant, "cls": cls, "kind": kind, "sdim": sdim, "aniso": aniso, "layout": list(range(0, 2 * nm, 2))[:nm] if P.shape[1] >= 2 * nm - 1 else list(range(nm)), "nugget": (0.0 if aniso else 0.3) if nugget is None else nugget, "gen": gen, "hist": h}
                        if mode:
                            c["mode"] = mode
                        if exact:
                            c["exact"] = True
                        hcases.append(c)
    return hcases


def run(chk):
    tier = chk.tier
    gen = generic_values(chk.seed, 2, 0.05, 0.45, "C05gen")
    cases = []
    kinds = [("euclid", 1), ("euclid", 2), ("euclid", 3), ("time", 2), ("latlon", 3), ("latlon+time", 3)]
    variants = ["Simple", "Ordinary", "Universal", "UniversalCustom", "ExtDrift", "ExtDrift2", "DriftExt", "Detrended", "GenericDrift"]
    quick_models = ["Gaussian", "Exponential", "Spherical", "Matern", "Stable"]
    models = quick_models if tier == "quick" else list(MODELS)
    for kind, sdim in kinds:
        P, T, ax = pool(kind, sdim, gen)
        geo0 = geo_of(kind, sdim, False)
        for variant in variants + (["UniversalQuad"] if (kind, sdim) == ("euclid", 1) else []):
            nm = n_min(variant, geo0.field_dim)
            for cls in models:
                if cls in ("Linear",) and not (kind == "euclid" and sdim == 1):
                    continue
                if cls == "Circular" and not (kind == "euclid" and sdim <= 2):
                    continue
                for aniso in (False, True, "axis", "zrot"):
                    if kind == "euclid" and sdim == 1 and aniso:
                        continue
                    if aniso == "zrot" and not (kind == "euclid" and sdim == 3):
                        continue
                    if aniso in ("axis", "zrot") and (kind.startswith("latlon") or variant not in ("Universal", "UniversalCustom", "DriftExt", "GenericDrift", "Ordinary") or cls != "Exponential"):
                        continue
                    # complete subset sweep for the reference model of each configuration, selected layouts otherwise
                    full = cls == "Exponential" and not aniso and (tier != "quick" or variant in ("Simple", "Ordinary", "Universal"))
                    if tier == "quick":
                        nmax = 5 if sdim == 1 and kind == "euclid" else (3 if full else 4)
                    else:
                        nmax = 5
                    for lay in layouts(P, nm, max(nm, nmax), full):
                        for nug in ((0.0, 0.3) if tier != "quick" and len(lay) <= 4 else (0.0 if len(lay) % 2 else 0.3,)):
                            cases.append({"variant": variant, "cls": cls, "kind": kind, "sdim": sdim, "aniso": aniso, "layout": lay, "nugget": nug, "gen": gen, "perm_n": 3 if tier == "quick" else 4})
    chk.run("krige", case_krige, cases, rule="variant (Simple, Ordinary, Universal linear/quadratic/custom, ExtDrift, Detrended, generic drift without unbiasedness) x model x {dim 1,2,3, 2D+time, lat-lon, lat-lon+time} x {isotropic, anisotropic+rotated, anisotropic along the axes / km scale + time anisotropy} x conditioning layouts (all k-subsets of the point pool for the reference model, selected subsets otherwise) x nugget; inside each case: exact x measurement-error kind x pseudo-inverse type, unit-vector / constant / drift / generic data, chunk sizes, mesh types, all permutations of <= 4 data and 4 targets, mean/trend/normalizer combinations", max_skip_frac=0.6, chunk=4)
    # histories of in-place model changes, refreshes and new conditions
    depth = 3 if tier == "quick" else 4
    hcases = refresh_cases(tier, gen, list(MOPS), depth)
    chk.run("refresh", case_refresh, hcases, rule=f"variant x geometry (2-D, 3-D, 2-D+time, lat-lon) x isotropic/anisotropic start x every history of length <= {depth} over in-place model changes {{anis, angles, len_scale, var, nugget}} and set_condition {{no argument, new values, new positions}} that ends with a set_condition; the object was called before the history (all caches warm); after every set_condition the result is compared with the dense solution for the present model and conditions", max_skip_frac=0.6, chunk=16)
    chk.assume("numerically singular systems (condition number > 1e10, e.g. collinear layouts under a linear drift) are skipped by a counted guard; tolerance 1e3*eps*cond(K)*(|data|+1)")
    chk.assume("covariances of Gaussian, Exponential, Spherical, Stable, Matern, Cubic, Rational are evaluated by formulas of the oracle; for the other classes the library's cor() is used (decided by C03)")
