"""C06 - kriging interpolates exactly; its variance is non-negative and bounded; duplicates.

Same enumerated space as C05 restricted to zero measurement error (no nugget, or exact
mode), evaluated *at* the conditioning locations and on the target lattice; plus every way of
duplicating one or two conditioning points of every layout (pseudo-inverse pinv / pinvh)
against the de-duplicated layout carrying the mean value.
"""
import itertools
import warnings

import numpy as np

import gstools as gs

from .. import krigref as kr
from ..core import R, generic_values
from . import C05

LEVEL = "exploration"
warnings.simplefilter("ignore")


def case_exact(case):
    r = R()
    variant = case["variant"]
    P, T, ax = C05.pool(case["kind"], case["sdim"], case["gen"])
    idx = case["layout"]
    cp = P[:, idx]
    n = len(idx)
    extra = {"variant": variant, "cls": case["cls"], "kind": case["kind"]}
    z = C05.DATA[:n].copy()
    ext_c, ext_t = C05.ext_values(variant, n, T.shape[1])
    exact = case["nugget"] > 0
    cerr_modes = ["nugget"] + (["zero", "zeros"] if case["nugget"] > 0 else [])
    procs = [("const" if variant in ("Simple", "GenericDrift") else "none", "none", "none")]
    if variant in ("Simple", "Ordinary", "Universal") + C05.EXTV:
        procs += [("const" if variant == "Simple" else "none", "call", "none"), ("call" if variant == "Simple" else "none", "none", "ln"), ("none", "call", "bc")]
    done = 0
    for proc in procs:
        zz = z if proc[2] == "none" else np.abs(z) + (1.4 if proc[1] == "call" else 0.4)
        for pinv in ("pinv", "pinvh", "none"):
            k, ref = C05.build_pair(case, cp, zz, exact=exact, cond_err="nugget", pinv=pinv, proc=proc, cond_ext=ext_c)
            if k is None:
                continue
            if not np.all(np.isfinite(ref.ztilde())):
                continue
            kw = {"ext_drift": ext_c} if variant in C05.EXTV else {}
            # (first a request at positions that agree with the stations within numpy.allclose, then the stations)
            k(cp * (1 + 3e-6), **kw)
            f, v = k(cp, **kw)
            tol = max(1e-8, 1e2 * ref.tol(float(np.abs(zz).max())))
            if n >= 3:
                fc_, vc_ = k(cp, chunk_size=2, **kw)
                r.close("field at the conditioning locations independent of chunk_size", fc_, f, rtol=1e-10, atol=1e-12, proc=list(proc), pinv=pinv, **extra)
                r.close("variance at the conditioning locations independent of chunk_size", vc_, v, rtol=1e-10, atol=1e-12, proc=list(proc), pinv=pinv, **extra)
            r.close("field at a conditioning location == conditioning value", f, zz, rtol=1e-8, atol=tol, proc=list(proc), pinv=pinv, **extra)
            r.true("kriging variance at a conditioning location == 0", bool(np.all(np.abs(v) <= 1e-8 * ref.sill + 1e2 * kr.EPS * ref.cond * ref.sill)), info=v.tolist(), proc=list(proc), pinv=pinv, **extra)
            kwt = {"ext_drift": ext_t} if variant in C05.EXTV else {}
            ft, vt = k(T, **kwt)
            w, est, var = ref.solve(T, ext_t)
            r.true("kriging variance >= 0 everywhere", bool(np.all(vt >= 0)), info=vt.tolist(), **extra)
            r.true("unclipped variance of the kriging system >= -1e-8 sill (clipping hides no wrong sign)", bool(np.all(var >= -1e-8 * ref.sill - 1e2 * kr.EPS * ref.cond * ref.sill)), info=var.tolist(), **extra)
            r.close("kriging variance == max(sill - k^T K^-1 k, 0)", vt, np.maximum(var, 0), rtol=1e-7, atol=1e3 * kr.EPS * ref.cond * ref.sill + 1e-12, **extra)
            if variant in ("Simple", "Detrended"):
                r.true("simple kriging variance <= sill", bool(np.all(vt <= ref.sill * (1 + 1e-10))), info=vt.tolist(), **extra)
            # far away: simple kriging variance tends to the sill, estimate to the mean
            done += 1
            # history on the used object: trend (and, for simple kriging, mean) re-assigned without a new
            # set_condition - the conditions are processed with the present trend / mean at every call, so the
            # values are still reproduced
            if proc[2] == "none" and pinv == "pinv" and variant in ("Simple", "Ordinary", "Universal"):
                k.trend = lambda *p: 0.7 - 0.2 * p[0] + 0.05 * p[-1]
                f2, v2 = k(cp, **kw)
                r.close("trend re-assigned on a used object: field at a conditioning location == conditioning value", f2, zz, rtol=1e-8, atol=tol, proc=list(proc), **extra)
                if variant == "Simple":
                    k.mean = 1.1
                    f2, v2 = k(cp, **kw)
                    r.close("mean re-assigned on a used object: field at a conditioning location == conditioning value", f2, zz, rtol=1e-8, atol=tol, proc=list(proc), **extra)
                k.trend = None
                f2, v2 = k(cp, **kw)
                r.close("trend removed on a used object: field at a conditioning location == conditioning value", f2, zz, rtol=1e-8, atol=tol, proc=list(proc), **extra)
    # zero measurement error stated explicitly (scalar 0 / array of zeros) for a model with nugget, exact=False:
    # the values are reproduced (the variance at the stations is then the nugget, not 0)
    for cm in cerr_modes[1:]:
        ce = 0.0 if cm == "zero" else np.zeros(n)
        k, ref = C05.build_pair(case, cp, z, exact=False, cond_err=ce, pinv="pinv", proc=procs[0], cond_ext=ext_c)
        if k is None or not np.all(np.isfinite(ref.ztilde())):
            continue
        kw = {"ext_drift": ext_c} if variant in C05.EXTV else {}
        f, v = k(cp, **kw)
        tol = max(1e-8, 1e2 * ref.tol(float(np.abs(z).max())))
        r.close("explicit zero measurement error: field at a conditioning location == conditioning value", f, z, rtol=1e-8, atol=tol, cond_err=cm, **extra)
        w_, est_, var_ = ref.solve(cp, ext_c)
        r.close("explicit zero measurement error: variance == dense solution", v, np.maximum(var_, 0), rtol=1e-7, atol=1e3 * kr.EPS * ref.cond * ref.sill + 1e-12, cond_err=cm, **extra)
        done += 1
    if not done:
        return r.done(skip="kriging system numerically singular (cond > 1e10)")
    return r.done(outcome=[n, case["kind"], variant], sub={"systems": done})


def case_duplicates(case):
    """coincident conditioning points solved with the pseudo-inverse act as one point with the mean value"""
    r = R()
    variant = case["variant"]
    P, T, ax = C05.pool(case["kind"], case["sdim"], case["gen"])
    idx = case["layout"]
    n = len(idx)
    extra = {"variant": variant, "cls": case["cls"], "kind": case["kind"]}
    z = C05.DATA[:n].copy()
    ext_c = np.array([0.3, 1.1, 0.7, 1.9, 0.2, 1.4, 0.9])[:n]
    ext_t = 0.25 + 0.1 * np.arange(T.shape[1]) ** 1.3
    base = dict(exact=case["nugget"] > 0, cond_err="nugget", proc=("const" if variant in ("Simple", "GenericDrift") else "none", "none", "none"))
    # target points: the lattice (incl. the duplicated location) and generic points
    tp = np.hstack([T, P[:, idx]])
    kwt = {"ext_drift": np.concatenate([ext_t, ext_c])} if variant in C05.EXTV else {}
    done = 0
    dup_sets = [(i,) for i in range(n)] + list(itertools.combinations(range(n), 2))
    for dups in dup_sets:
        # de-duplicated layout: value = mean of the coincident values
        zd = z.copy()
        add_pos, add_val, add_ext = [], [], []
        for j, i in enumerate(dups):
            v2 = z[i] + 0.8 + 0.3 * j
            add_pos.append(P[:, idx[i]])
            add_val.append(v2)
            add_ext.append(ext_c[i])
            zd[i] = 0.5 * (z[i] + v2)
        cp_dup = np.hstack([P[:, idx], np.array(add_pos).T])
        z_dup = np.concatenate([z, add_val])
        e_dup = np.concatenate([ext_c, add_ext])
        for pinv in ("pinv", "pinvh"):
            k0, ref0 = C05.build_pair(case, P[:, idx], zd, pinv=pinv, cond_ext=ext_c, **base)
            if k0 is None:
                continue
            # the duplicated system is singular by construction: build the library object only
            try:
                kd, refd = _build_dup(case, cp_dup, z_dup, pinv, e_dup, base)
            except Exception as e:  # noqa
                r.fail("duplicated conditioning points with pseudo-inverse raise", repr(e), "solved", dups=list(dups), pinv=pinv, **extra)
                continue
            f0, v0 = k0(tp, **kwt)
            fd, vd = kd(tp, **kwt)
            tol = max(1e-8, 1e3 * ref0.tol(3.0))
            r.close("duplicates (pseudo-inverse) == single point with the mean value (field)", fd, f0, rtol=1e-7, atol=tol, dups=list(dups), pinv=pinv, **extra)
            r.close("duplicates (pseudo-inverse) == single point with the mean value (variance)", vd, v0, rtol=1e-7, atol=tol * ref0.sill, dups=list(dups), pinv=pinv, **extra)
            done += 1
    if not done:
        return r.done(skip="kriging system numerically singular (cond > 1e10)")
    return r.done(outcome=[n, case["kind"], variant], sub={"duplicate_systems": done})


def _build_dup(case, cp, z, pinv, ext, base):
    # bypass the singularity guard of build_pair: the duplicated system *is* singular
    class _Big:
        cond = 1.0

    orig = C05._ref_only
    try:
        C05._ref_only = lambda *a, **k: _Big()
        return C05.build_pair(case, cp, z, pinv=pinv, cond_ext=ext, **base)
    finally:
        C05._ref_only = orig


GROUPS = {"exact": case_exact, "duplicates": case_duplicates, "exact_refresh": C05.case_refresh}


def run(chk):
    tier = chk.tier
    gen = generic_values(chk.seed, 2, 0.05, 0.45, "C05gen")
    cases, dcases = [], []
    kinds = [("euclid", 1), ("euclid", 2), ("euclid", 3), ("time", 2), ("latlon", 3), ("latlon+time", 3)]
    variants = ["Simple", "Ordinary", "Universal", "UniversalCustom", "ExtDrift", "ExtDrift2", "DriftExt", "Detrended", "GenericDrift"]
    models = ["Gaussian", "Exponential", "Spherical", "Matern", "Stable"] if tier == "quick" else list(C05.MODELS)
    for kind, sdim in kinds:
        P, T, ax = C05.pool(kind, sdim, gen)
        geo0 = C05.geo_of(kind, sdim, False)
        for variant in variants:
            nm = C05.n_min(variant, geo0.field_dim)
            for cls in models:
                if cls == "Linear" and not (kind == "euclid" and sdim == 1):
                    continue
                if cls == "Circular" and not (kind == "euclid" and sdim <= 2):
                    continue
                for aniso in (False, True, "zrot"):
                    if kind == "euclid" and sdim == 1 and aniso:
                        continue
                    if aniso == "zrot" and not (kind == "euclid" and sdim == 3 and cls == "Exponential" and variant in ("Universal", "UniversalCustom", "DriftExt", "GenericDrift", "Ordinary")):
                        continue
                    full = cls == "Exponential" and not aniso and (tier != "quick" or variant in ("Simple", "Ordinary"))
                    nmax = 5 if tier != "quick" or (sdim == 1 and kind == "euclid") else (3 if full else 4)
                    for lay in C05.layouts(P, nm, max(nm, nmax), full):
                        for nug in (0.0, 0.3):
                            c = {"variant": variant, "cls": cls, "kind": kind, "sdim": sdim, "aniso": aniso, "layout": lay, "nugget": nug, "gen": gen}
                            cases.append(c)
                            # with a nugget on the diagonal coincident points are two noisy measurements (regular
                            # system, weights by error variance), not "one point with the mean value": nugget-free only
                            if nug == 0.0 and variant in ("Simple", "Ordinary", "Universal", "ExtDrift") and len(lay) >= max(2, nm) and (cls in ("Exponential", "Spherical") or tier != "quick") and len(lay) <= 4:
                                dcases.append(c)
    chk.run("exact", case_exact, cases, rule="C05 space with zero measurement error (nugget 0, or nugget 0.3 with exact=True) x mean/trend/normalizer x pseudo-inverse type: field and variance at the conditioning locations, variance sign and bounds on the target set", max_skip_frac=0.6, chunk=8)
    chk.run("duplicates", case_duplicates, dcases, rule="every layout x every way of duplicating one or two conditioning points with different values x pinv/pinvh: equals the de-duplicated layout carrying the mean value", max_skip_frac=0.6, chunk=8)
    depth = 3 if tier == "quick" else 4
    hcases = C05.refresh_cases(tier, gen, ["anis", "angles", "len", "var"], depth, nugget=0.0, mode="exact")
    # exact mode: the nugget may appear or change after construction (in-place change + refresh)
    hx = C05.refresh_cases(tier, gen, ["nugget", "len", "var"], 2 if tier == "quick" else 3, nugget=0.0, mode="exact", exact=True)
    hcases = hcases + [c for c in hx if "nugget" in c["hist"]]
    chk.run("exact_refresh", C05.case_refresh, hcases, rule=f"variant x geometry (2-D, 3-D, 2-D+time, lat-lon) x isotropic/anisotropic start x every history of length <= {depth} over in-place model changes {{anis, angles, len_scale, var}} and set_condition {{no argument, new values, new positions}} ending with a set_condition (object called before, caches warm), nugget 0 (and, with exact=True, a nugget that is set after construction): after every set_condition the field at the present conditioning locations equals the present values with zero variance", max_skip_frac=0.6, chunk=16)
    chk.assume("numerically singular de-duplicated systems (cond > 1e10) are skipped by a counted guard; exactness is judged with tolerance max(1e-8, 1e5*eps*cond*|data|)")
