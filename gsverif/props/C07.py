"""C07 - conditioned random fields honour the data and never reuse stale kriging results.

Breadth-first search over call histories on real CondSRF(Krige) objects.  Reference model:
a dict (conditions, model parameters, mean/trend/normalizer, target positions by value,
seed).  Oracles after every generating call: (i) a freshly built Krige + CondSRF from the
reference state; (ii) data honoured at the conditioning locations; (iii) the conditioning
formula on the stored fields with an independent unconditional SRF of the same seed;
(iv) far-field behaviour under simple kriging.
"""
import copy
import json
import warnings

import itertools
import math

import numpy as np

import gstools as gs

from ..core import R

LEVEL = "model_checking"
warnings.simplefilter("ignore")

SEEDS = {"s1": 4711, "s2": 991177, "s0": 0}  # (s0: the smallest legal seed, used by the formula group only)
MODE_NO = 16


def trend_fn(kind):
    if kind == "lin":
        return lambda *p: 0.3 + 0.2 * p[0]
    if kind == "lin2":
        return lambda *p: -0.4 + 0.1 * p[0] + (0.05 * p[1] if len(p) > 1 else 0.0)
    return None


def mean_val(kind):
    return {"none": None, "c1": 1.0, "c2": -0.5}[kind]


def norm_obj(kind):
    return {"none": None, "yj": gs.normalizer.YeoJohnson(lmbda=0.7), "mod": gs.normalizer.Modulus(lmbda=0.8)}[kind]


COND_POS = {
    1: [np.array([[0.3, 1.9, 3.1, 4.3, 6.7]]), np.array([[0.9, 2.5, 3.7, 5.6]])],
    2: [np.array([[0.3, 1.9, 1.1, 3.3, 4.7], [1.2, 0.6, 3.2, 4.4, 3.8]]), np.array([[0.8, 2.6, 4.1, 3.0], [0.4, 2.2, 1.0, 4.9]])],
    3: [np.array([[0.3, 1.9, 1.1, 3.3, 4.7], [1.2, 0.6, 3.2, 4.4, 3.8], [0.5, 2.1, 1.4, 0.2, 3.0]]), np.array([[0.8, 2.6, 4.1, 3.0], [0.4, 2.2, 1.0, 4.9], [1.0, 0.3, 2.7, 1.9]])],
}
COND_VAL = [np.array([0.47, 0.56, 0.74, 1.47, 1.74]), np.array([1.3, -0.2, 0.9, 0.4, 2.2]), np.array([0.6, 1.1, -0.3, 0.8])]


def target(cfg, name):
    d = cfg["dim"]
    A = np.array([[0.0, 1.0, 2.4, 3.6, 5.2, 7.0], [0.5, 2.0, 0.8, 3.9, 2.6, 4.4], [0.2, 1.6, 2.9, 0.7, 1.1, 3.3]])[:d]
    B = np.array([[0.7, 2.9, 4.5, 6.1], [1.4, 3.1, 0.3, 2.2], [2.2, 0.1, 1.8, 3.0]])[:d]
    if name == "A":
        return A.copy()
    if name == "A1":  # differs from A by less than numpy.allclose's tolerance in every coordinate (relative shift)
        return A * (1 + 3e-6)
    if name == "B":
        return B.copy()
    if name == "G":
        return [np.array([0.5, 2.0, 3.5]), np.array([1.0, 3.0]), np.array([0.5, 2.5])][:d]
    raise KeyError(name)


def init_ref(cfg):
    return {
        "cls": cfg["cls"],
        "dim": cfg["dim"],
        "var": 1.4,
        "len_scale": 2.0,
        "nugget": cfg["nugget"],
        "cpos": 0,
        "cval": 0,
        "mean": "c1" if cfg["variant"] == "Simple" else "none",
        "trend": "lin" if cfg["variant"] == "Detrended" else "none",
        "norm": "none",
        "seed": "s1",
        "geom": 0,
        "tpos": None,  # ("A"|"B"|"G"|"mut<k>", mesh)
        "shift": 0.0,
    }


# (3: all ratios 1 but rotated - "isotropic" for the anisotropy test, not for the coordinate transform)
GEOMS = {0: ([0.8, 0.9], [0.3, 0.1, -0.2]), 1: ([0.5, 1.3], [1.1, -0.4, 0.6]), 2: ([1.0, 1.0], [0.0, 0.0, 0.0]), 3: ([1.0, 1.0], [0.8, 0.5, -0.3])}


def make_model(ref):
    C = getattr(gs, ref["cls"])
    kw = dict(dim=ref["dim"], var=ref["var"], len_scale=ref["len_scale"], nugget=ref["nugget"])
    if ref["dim"] > 1:
        g = GEOMS[ref.get("geom", 0)]
        kw["anis"] = g[0][: ref["dim"] - 1]
        kw["angles"] = g[1][: ref["dim"] * (ref["dim"] - 1) // 2]
    return C(**kw)


def cond_of(cfg, ref):
    cp = COND_POS[cfg["dim"]][ref["cpos"]]
    cv = COND_VAL[ref["cval"]]
    if ref["cpos"] == 1:
        cv = COND_VAL[2] if ref["cval"] == 0 else COND_VAL[2][::-1].copy()
    elif ref["cval"] == 1:
        cv = COND_VAL[1]
    return cp.copy(), np.array(cv, dtype=float).copy()


def make_krige(cfg, ref):
    m = make_model(ref)
    cp, cv = cond_of(cfg, ref)
    kw = dict(exact=ref["nugget"] > 0, normalizer=norm_obj(ref["norm"]))
    v = cfg["variant"]
    if v == "Simple":
        return gs.krige.Simple(m, cp, cv, mean=mean_val(ref["mean"]), trend=trend_fn(ref["trend"]), **kw)
    if v == "Ordinary":
        return gs.krige.Ordinary(m, cp, cv, trend=trend_fn(ref["trend"]), **kw)
    if v == "Universal":
        return gs.krige.Universal(m, cp, cv, "linear", trend=trend_fn(ref["trend"]), **kw)
    if v == "Detrended":
        return gs.krige.Detrended(m, cp, cv, trend_fn(ref["trend"]), exact=ref["nugget"] > 0)
    raise KeyError(v)


def make_csrf(cfg, ref):
    kr = make_krige(cfg, ref)
    csrf = gs.CondSRF(kr, seed=SEEDS[ref["seed"]], mode_no=MODE_NO)
    # the caller keeps its own handles on the kriging instance and (through it) on the model
    csrf.__dict__["_user_krige"] = kr
    return csrf


def tpos_value(cfg, ref):
    name, mesh = ref["tpos"]
    if name.startswith("mut"):
        return target(cfg, "A") + ref["shift"], mesh
    return target(cfg, name), mesh


def apply_op(csrf, ref, op, cfg, env):
    """returns the generated field (or None)"""
    k = op["k"]
    # conditions and in-place model changes go through the conditioned-field object or through the handles the
    # caller created before building it (the same objects, by the documented construction)
    user = cfg.get("handles") == "user"
    kr = csrf.__dict__["_user_krige"] if user else csrf.krige
    mdl = kr.model if user else csrf.model
    if k == "call":
        kw = {}
        if op.get("seed"):
            kw["seed"] = SEEDS[op["seed"]]
            ref["seed"] = op["seed"]
        if op.get("store") is not None:
            kw["store"] = op["store"]
        if op["pos"] is None:
            if ref["tpos"] is None:
                return "SKIP"
            return np.array(csrf(**kw), dtype=float)
        if op["pos"] == "G":
            ref["tpos"] = ("G", "structured")
            return np.array(csrf(target(cfg, "G"), mesh_type="structured", **kw), dtype=float)
        if op["pos"] == "mut":
            # the caller re-uses one array object and changes it in place between calls
            arr = env.setdefault("arr", target(cfg, "A"))
            if env.get("arr_used"):
                arr += 0.37
                ref["shift"] += 0.37
            env["arr_used"] = True
            ref["tpos"] = ("mut", "unstructured")
            return np.array(csrf(arr, **kw), dtype=float)
        ref["tpos"] = (op["pos"], "unstructured")
        return np.array(csrf(target(cfg, op["pos"]), **kw), dtype=float)
    if k == "set_pos":
        csrf.set_pos(target(cfg, op["pos"]))
        ref["tpos"] = (op["pos"], "unstructured")
    elif k == "cond_val":
        ref["cval"] = 1 - ref["cval"]
        kr.set_condition(cond_val=cond_of(cfg, ref)[1])
    elif k == "cond_posval":
        ref["cpos"] = 1 - ref["cpos"]
        cp, cv = cond_of(cfg, ref)
        kr.set_condition(cp, cv)
    elif k == "model_geom":
        if cfg["dim"] == 1:
            return "SKIP"
        ref["geom"] = op["v"]
        g = GEOMS[op["v"]]
        mdl.anis = g[0][: cfg["dim"] - 1]
        mdl.angles = g[1][: cfg["dim"] * (cfg["dim"] - 1) // 2]
        kr.set_condition()  # the documented refresh
    elif k == "model_attr":
        setattr(mdl, op["attr"], getattr(mdl, op["attr"]) * op["f"])
        ref[op["attr"]] = ref[op["attr"]] * op["f"]
        kr.set_condition()  # the documented refresh
    elif k == "model_assign":
        ref["len_scale"] = op["len_scale"]
        csrf.model = make_model(ref)
        kr.set_condition()
    elif k == "mean":
        ref["mean"] = op["v"]
        csrf.mean = mean_val(op["v"])
        if op.get("refresh", True):  # (mean, trend and normalizer act on the conditions when kriging is evaluated: no refresh needed)
            kr.set_condition()
    elif k == "trend":
        ref["trend"] = op["v"]
        csrf.trend = trend_fn(op["v"])
        if op.get("refresh", True):  # (mean, trend and normalizer act on the conditions when kriging is evaluated: no refresh needed)
            kr.set_condition()
    elif k == "norm":
        ref["norm"] = op["v"]
        csrf.normalizer = norm_obj(op["v"])
        if op.get("refresh", True):  # (mean, trend and normalizer act on the conditions when kriging is evaluated: no refresh needed)
            kr.set_condition()
    elif k == "krige_direct":
        kr(target(cfg, op["pos"]))
        ref["tpos"] = (op["pos"], "unstructured")
    else:
        raise KeyError(k)
    return None


def canon(ref, csrf):
    key = dict(ref)
    key["tpos"] = list(ref["tpos"]) if ref["tpos"] else None
    key["shift"] = round(ref["shift"], 6)
    key["stored"] = sorted(csrf.field_names)
    key["kstored"] = sorted(csrf.krige.field_names)
    return json.dumps(key, sort_keys=True)


def case_hist(case):
    cfg, hist = case["cfg"], case["hist"]
    r = R()
    ref = init_ref(cfg)
    csrf = make_csrf(cfg, ref)
    env = {}
    out = None
    # non-initial start: the object has already generated a field (stored kriging results exist)
    for op in cfg.get("warm", []):
        apply_op(csrf, ref, op, cfg, env)
    for op in hist:
        out = apply_op(csrf, ref, op, cfg, env)
        if isinstance(out, str):
            return r.done(skip="call without positions before any positions were set")
    key = canon(ref, csrf)
    if not hist or hist[-1]["k"] != "call":
        return r.done(outcome=key, nontrivial=bool(hist))
    op = hist[-1]
    extra = {"variant": cfg["variant"], "cls": cfg["cls"], "prev": hist[-2]["k"] if len(hist) > 1 else "init", "lastpos": str(op["pos"])}
    pos, mesh = tpos_value(cfg, ref)
    names = op.get("store") or ["field", "raw_field", "raw_krige"]
    if op.get("store") is False:
        # nothing is stored by this call: only the returned field can be judged
        if ref["nugget"] == 0:
            fresh = make_csrf(cfg, ref)
            fo = np.array(fresh(pos, seed=SEEDS[ref["seed"]], mesh_type=mesh), dtype=float)
            r.close("conditioned field == freshly built object", out, fo, rtol=1e-8, atol=1e-8, **extra)
        return r.done(outcome=key, sub={"calls_judged": 1})
    sill = ref["var"] + ref["nugget"]
    # (i) differential oracle: freshly built objects from the reference state
    fresh = make_csrf(cfg, ref)
    fo = np.array(fresh(pos, seed=SEEDS[ref["seed"]], mesh_type=mesh), dtype=float)
    tol = dict(rtol=1e-8, atol=1e-8)
    r.close("stored raw_krige == freshly built object", np.array(csrf[names[2]]), np.array(fresh["raw_krige"]), **tol, **extra)
    r.close("kriging variance == freshly built object", np.array(csrf.krige["krige_var"]), np.array(fresh.krige["krige_var"]), **tol, **extra)
    r.close("stored raw_field == freshly built object", np.array(csrf[names[1]]), np.array(fresh["raw_field"]), rtol=1e-10, atol=1e-12, **extra)
    if ref["nugget"] == 0:
        r.close("conditioned field == freshly built object", out, fo, **tol, **extra)
    r.close("returned field is the stored field", out, np.array(csrf[names[0]]), rtol=0, atol=0, **extra)
    # (iii) conditioning formula with an independent unconditional field of the same seed
    m = make_model(ref)
    usrf = gs.SRF(copy.deepcopy(m), mean=0.0, seed=SEEDS[ref["seed"]], mode_no=MODE_NO)
    if ref["nugget"] > 0:
        # unconditional smooth part: same modes, nugget noise excluded
        iso, shp = usrf.pre_pos(pos, mesh)
        uraw = np.reshape(usrf.generator(iso, add_nugget=False), shp)
    else:
        uraw = np.array(usrf(pos, mesh_type=mesh), dtype=float)
    r.close("raw_field == unconditional field of the same seed", np.array(csrf[names[1]]), uraw, rtol=1e-10, atol=1e-12, **extra)
    kv = np.array(csrf.krige["krige_var"])
    rk = np.array(csrf[names[2]])
    if ref["nugget"] == 0:
        inner = rk + np.sqrt(kv / ref["var"]) * uraw
        # post-processing decided by C18; here through the object's own pipeline on a fresh Field
        from gstools.normalizer.tools import apply_mean_norm_trend

        exp = apply_mean_norm_trend(pos, inner.copy(), mean=mean_val(ref["mean"]), normalizer=norm_obj(ref["norm"]), trend=trend_fn(ref["trend"]), mesh_type=mesh, check_shape=False)
        r.close("field == post(raw_krige + sqrt(krige_var/var) * raw_field)", out, exp, rtol=1e-9, atol=1e-10, **extra)
    r.true("0 <= krige_var <= sill (simple) / finite", bool(np.all(kv >= 0) and np.all(np.isfinite(kv)) and (cfg["variant"] not in ("Simple", "Detrended") or np.all(kv <= sill * (1 + 1e-9)))), info=kv.tolist(), **extra)
    # (ii) data honoured at the conditioning locations (zero measurement error: nugget 0 or exact)
    cp, cv = cond_of(cfg, ref)
    at = np.array(csrf(cp, seed=SEEDS[ref["seed"]]), dtype=float)
    # (tolerance follows the conditioning of the kriging system: a smooth model with a long length scale on
    # close points is resolved to eps * cond only; the property is stated for numerically non-singular systems)
    kcond = float(np.linalg.cond(np.asarray(csrf.krige._krige_mat)))
    if kcond > 1e12:
        return r.done(outcome=key, skip="kriging system numerically singular (cond > 1e12)")
    # the random part enters with sqrt(kriging variance): a variance resolved to eps * cond gives sqrt(eps * cond)
    etol = max(1e-6, 1e3 * np.finfo(float).eps * kcond * (float(np.abs(cv).max()) + 1.0), 10.0 * math.sqrt(np.finfo(float).eps * kcond) * (float(np.abs(uraw).max()) + 1.0))
    r.close("field at the conditioning locations == conditioning values", at, cv, rtol=1e-6, atol=etol, **extra)
    # (iv) far from the data, simple kriging: mean + unconditional field
    if cfg["variant"] == "Simple" and ref["nugget"] == 0 and ref["norm"] == "none":
        far = cp[:, :3] + 60.0 * ref["len_scale"]
        ff = np.array(csrf(far, seed=SEEDS[ref["seed"]]), dtype=float)
        uf = np.array(usrf(far), dtype=float)
        tr = trend_fn(ref["trend"])
        base = (mean_val(ref["mean"]) or 0.0) + (tr(*far) if tr else 0.0)
        r.close("far from the data: field == mean + unconditional field", ff, base + uf, rtol=1e-6, atol=1e-6, **extra)
    return r.done(outcome=key, sub={"calls_judged": 1})


def ops_for(cfg, tier="quick"):
    ops = []
    A = ops.append
    A({"k": "call", "pos": "A", "seed": "s1"})
    A({"k": "call", "pos": "A", "seed": "s2"})
    A({"k": "call", "pos": None, "seed": "s1"})
    A({"k": "call", "pos": None, "seed": None})
    A({"k": "call", "pos": "B", "seed": None})
    A({"k": "call", "pos": "A1", "seed": None})
    A({"k": "call", "pos": "G", "seed": None})
    A({"k": "call", "pos": "mut", "seed": None})
    A({"k": "call", "pos": "A", "seed": None, "store": ["f2", "rf2", "rk2"]})
    A({"k": "set_pos", "pos": "B"})
    A({"k": "cond_val"})
    A({"k": "cond_posval"})
    A({"k": "model_attr", "attr": "len_scale", "f": 1.5})
    A({"k": "model_attr", "attr": "var", "f": 3.0})
    A({"k": "model_assign", "len_scale": 3.5})
    A({"k": "model_geom", "v": 1})
    A({"k": "model_geom", "v": 2})
    A({"k": "model_geom", "v": 3})
    A({"k": "call", "pos": None, "seed": "s2", "store": False})
    v = cfg["variant"]
    if v == "Simple":
        A({"k": "mean", "v": "c2"})
        A({"k": "mean", "v": "c2", "refresh": False})
    if v in ("Simple", "Ordinary", "Universal"):
        A({"k": "trend", "v": "lin2", "refresh": False})
        A({"k": "norm", "v": "yj", "refresh": False})
    if v in ("Simple", "Ordinary", "Universal"):
        A({"k": "trend", "v": "lin2"})
        A({"k": "norm", "v": "yj"})
    if v == "Detrended":
        A({"k": "trend", "v": "lin2"})
    A({"k": "krige_direct", "pos": "B"})
    return ops


def configs(tier):
    c = [
        {"variant": "Simple", "cls": "Exponential", "dim": 1, "nugget": 0.0},
        {"variant": "Ordinary", "cls": "Exponential", "dim": 2, "nugget": 0.0},
        {"variant": "Universal", "cls": "Gaussian", "dim": 2, "nugget": 0.0},
        {"variant": "Detrended", "cls": "Gaussian", "dim": 1, "nugget": 0.0},
        {"variant": "Simple", "cls": "Gaussian", "dim": 2, "nugget": 0.2},
        {"variant": "Ordinary", "cls": "Exponential", "dim": 1, "nugget": 0.2},
    ]
    c += [
        {"variant": "Simple", "cls": "Exponential", "dim": 1, "nugget": 0.0, "warm": [{"k": "call", "pos": "A", "seed": "s1"}]},
        {"variant": "Ordinary", "cls": "Gaussian", "dim": 2, "nugget": 0.0, "warm": [{"k": "call", "pos": "B", "seed": "s2"}]},
    ]
    # conditions / model changed through the handles the caller created before building the conditioned field
    c += [
        {"variant": "Ordinary", "cls": "Exponential", "dim": 2, "nugget": 0.0, "handles": "user"},
        {"variant": "Simple", "cls": "Gaussian", "dim": 1, "nugget": 0.0, "handles": "user", "warm": [{"k": "call", "pos": "A", "seed": "s1"}]},
    ]
    if tier != "quick":
        c += [
            {"variant": "Simple", "cls": "Spherical", "dim": 2, "nugget": 0.0},
            {"variant": "Ordinary", "cls": "Gaussian", "dim": 3, "nugget": 0.0},
            {"variant": "Universal", "cls": "Exponential", "dim": 1, "nugget": 0.2},
            {"variant": "Detrended", "cls": "Exponential", "dim": 2, "nugget": 0.2},
        ]
    return c


EXTF = {"f1": (lambda x: 0.3 + 0.2 * x), "f2": (lambda x: 1.0 - 0.1 * x * x)}


def _ext_csrf(cfg):
    ref = init_ref(dict(cfg, variant="Ordinary"))
    m = make_model(ref)
    cp, cv = cond_of(dict(cfg, variant="Ordinary"), ref)
    kr = gs.krige.ExtDrift(m, cp, cv, EXTF["f1"](cp[0]))
    return gs.CondSRF(kr, seed=SEEDS["s1"], mode_no=MODE_NO), cp, cv


def case_extdrift(case):
    """conditioned fields on external-drift kriging: the drift at the target points is part of the request;
    every call of every history equals a freshly built object called with the same request"""
    r = R()
    cfg, hist = case["cfg"], case["hist"]
    csrf, cp, cv = _ext_csrf(cfg)
    extra = {"cls": cfg["cls"], "dim": cfg["dim"]}
    for i, op in enumerate(hist):
        pos = target(cfg, op["pos"])
        ext = EXTF[op["ext"]](pos[0])
        kw = {"seed": SEEDS[op["seed"]]} if op["seed"] else {}
        out = np.array(csrf(pos, ext_drift=ext, **kw), dtype=float)
        if i == len(hist) - 1:
            seeds = [o["seed"] for o in hist if o["seed"]]
            fresh, _, _ = _ext_csrf(cfg)
            fo = np.array(fresh(pos, ext_drift=ext, seed=SEEDS[seeds[-1] if seeds else "s1"]), dtype=float)
            r.close("conditioned field (external drift) == freshly built object called with the same positions, drift and seed", out, fo, rtol=1e-8, atol=1e-8, last=op, **extra)
            r.close("stored raw_krige == freshly built object", np.array(csrf["raw_krige"]), np.array(fresh["raw_krige"]), rtol=1e-8, atol=1e-8, last=op, **extra)
            at = np.array(csrf(cp, ext_drift=EXTF["f1"](cp[0]), **kw), dtype=float)
            r.close("field at the conditioning locations (drift as at the conditions) == conditioning values", at, cv, rtol=1e-6, atol=1e-5, last=op, **extra)
    return r.done(outcome=[round(float(v), 8) for v in out[:2]])


def case_formula(case):
    """conditioning formula incl. the nugget part on freshly built objects: the first nugget draw
    of a fresh CondSRF equals the first draw of a fresh SRF with the same seed and shape"""
    cfg = case["cfg"]
    r = R()
    ref = init_ref(cfg)
    ref["seed"] = case["seed"]
    ref["len_scale"] = case["len_scale"]
    csrf = make_csrf(cfg, ref)
    cp, cv = cond_of(cfg, ref)
    near = target(cfg, "A")
    far = cp[:, :3] + 60.0 * ref["len_scale"]
    pos = np.concatenate([near, cp[:, :2], far], axis=1)
    # seed given with the request, or only at construction (make_csrf passes it to the constructor)
    out = np.array(csrf(pos, seed=SEEDS[ref["seed"]]) if case.get("call_seed", True) else csrf(pos), dtype=float)
    rk, kv = np.array(csrf["raw_krige"]), np.array(csrf.krige["krige_var"])
    m = make_model(ref)
    usrf = gs.SRF(copy.deepcopy(m), mean=0.0, seed=SEEDS[ref["seed"]], mode_no=MODE_NO)
    full = np.array(usrf(pos), dtype=float)  # smooth + sqrt(nugget) * xi   (first draw)
    iso, shp = usrf.pre_pos(pos, "unstructured")
    smooth = np.reshape(usrf.generator(iso, add_nugget=False), shp)
    noise = full - smooth
    n, v = ref["nugget"], ref["var"]
    if n > 0:
        vs = np.maximum(kv - n, 0.0)
        inner = rk + np.sqrt(vs / v) * smooth + np.sqrt((kv - vs) / n) * noise
    else:
        inner = rk + np.sqrt(kv / v) * smooth
    from gstools.normalizer.tools import apply_mean_norm_trend

    exp = apply_mean_norm_trend(pos, inner.copy(), mean=mean_val(ref["mean"]), normalizer=norm_obj(ref["norm"]), trend=trend_fn(ref["trend"]), check_shape=False)
    extra = {"variant": cfg["variant"], "cls": cfg["cls"]}
    r.close("field == kriging estimate + kriging-std scaled unconditional field (smooth and nugget part)", out, exp, rtol=1e-9, atol=1e-10, **extra)
    k0 = near.shape[1]
    r.close("field at conditioning locations == data", out[k0 : k0 + 2], cv[:2], rtol=1e-6, atol=1e-6, **extra)
    if cfg["variant"] == "Simple":
        tr = trend_fn(ref["trend"])
        base = (mean_val(ref["mean"]) or 0.0) + (tr(*far) if tr else 0.0)
        r.close("far from the data: field == mean + unconditional field of the same seed", out[k0 + 2 :], base + full[k0 + 2 :], rtol=1e-6, atol=1e-6, **extra)
        r.close("far from the data: kriging variance == sill", kv[k0 + 2 :], v + n, rtol=1e-6, **extra)
    return r.done(outcome=[round(float(x), 9) for x in out[:3]])


GROUPS = {"extdrift": case_extdrift, "condsrf_bfs": case_hist, "formula": case_formula}


def run(chk):
    depth = 3
    chk.bfs(
        "condsrf_bfs",
        case_hist,
        configs(chk.tier),
        lambda cfg: ops_for(cfg, chk.tier),
        depth if chk.tier == "quick" else 4,
        rule="BFS over histories of call(posA|posB|close-to-A|grid|kept|caller-mutated array; seed s1|s2|kept; custom store names) / set_pos / set_condition(new values | new positions+values) / in-place model change + documented refresh / model, mean, trend, normalizer re-assignment + refresh / direct krige call, on CondSRF over Simple, Ordinary, Universal and Detrended kriging; conditions and in-place model changes applied through the conditioned-field object or through the caller's own handles on the kriging instance and model",
    )
    fc = []
    for variant in ["Simple", "Ordinary", "Universal", "Detrended"]:
        for cls in ["Exponential", "Gaussian"] + (["Spherical"] if chk.tier != "quick" else []):
            for dim in (1, 2) if chk.tier == "quick" else (1, 2, 3):
                for nug in (0.0, 0.2, 0.7):
                    for seed in ("s1", "s2"):
                        for ls in (2.0, 0.8):
                            fc.append({"cfg": {"variant": variant, "cls": cls, "dim": dim, "nugget": nug}, "seed": seed, "len_scale": ls})
                    for seed in ("s0", "s1"):
                        fc.append({"cfg": {"variant": variant, "cls": cls, "dim": dim, "nugget": nug}, "seed": seed, "len_scale": 2.0, "call_seed": False})
                    fc.append({"cfg": {"variant": variant, "cls": cls, "dim": dim, "nugget": nug}, "seed": "s0", "len_scale": 0.8})
    chk.run("formula", case_formula, fc, rule="variant x model x dim x nugget (0, 0.2, 0.7 with exact=True) x seed (incl. 0; given with the request or only at construction) x length scale on freshly built objects: conditioning formula including the nugget part, data at the conditioning points, far field under simple kriging")
    eops = [{"pos": p, "ext": e, "seed": sd} for p in ("A", "B") for e in ("f1", "f2") for sd in ("s1", "s2", None)]
    ehist = [list(h) for L in (1, 2, 3 if chk.tier != "quick" else 2) for h in itertools.product(eops, repeat=L)]
    seen, eh = set(), []
    for h in ehist:
        k_ = json.dumps(h)
        if k_ not in seen:
            seen.add(k_)
            eh.append(h)
    ecases = [{"cfg": {"variant": "ExtDrift", "cls": c, "dim": d, "nugget": 0.0}, "hist": h} for (c, d) in (("Exponential", 1), ("Gaussian", 2)) for h in eh]
    chk.run("extdrift", case_extdrift, ecases, rule="CondSRF on external-drift kriging x every history of length <= 2 (thorough 3) of calls over positions {A, B} x drift at the targets {f1, f2} x seed {s1, s2, kept}: field and stored raw kriging field equal a freshly built object called with the last request; data honoured when the drift of the conditions is passed", chunk=16)
    chk.assume("zero measurement error configurations only (nugget 0, or nugget 0.2 with exact=True); with a nugget the full field is not compared with the fresh object (noise stream position is C11's subject), only the cached kriging parts, the raw field, and the data at the conditioning points")
    chk.assume("kriging correctness itself is decided by C05/C06; here a freshly built object is the reference")
