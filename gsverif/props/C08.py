"""C08 - empirical variogram estimates equal their mathematical definition.

Small-scope exhaustive enumeration: all point multisets of size <= 4 from a small lattice
(duplicates, collinear and equal-distance sets), every assignment of {0, 1, 3.5, NaN} to the
points (one field) / {0, 1, NaN}^2 (two fields), every increasing subset of size 2-4 of the
edge alphabet {0, .5, 1, sqrt2, 1.5, 2, 3} (edges that coincide with pair distances), both
estimators; direction sets x angular tolerances x bandwidths x separate/overlapping search;
lat-lon points incl. poles and date line; along-axis estimator on all small grids and masks.
Oracle: O(n^2) pair enumeration (gsverif.oracles.variogram).
"""
import itertools
import math
import warnings

import numpy as np

import gstools as gs
from gstools.variogram import estimator as est
from gstools.variogram import variogram as vmod

from ..core import R, generic_values
from ..oracles import variogram as ov

LEVEL = "exploration"
warnings.simplefilter("ignore")

EDGES = [0.0, 0.5, 1.0, math.sqrt(2.0), 1.5, 2.0, 3.0]


def edge_sets(sizes=(2, 3, 4)):
    out = []
    for k in sizes:
        out += [list(c) for c in itertools.combinations(EDGES, k)]
    return out


def lattice(dim):
    if dim == 3:
        pts = list(itertools.product([0.0, 1.0], repeat=3)) + [(2.0, 2.0, 2.0), (1.0, 1.0, 2.0)]
    else:
        pts = list(itertools.product([0.0, 1.0, 2.0], repeat=dim))
    return np.array(pts).T


def field_sets(n, nfields, small=False):
    if nfields == 1:
        vals = [0.0, 1.0, math.nan] if small else [0.0, 1.0, 3.5, math.nan]
        return [np.array([a]) for a in itertools.product(vals, repeat=n)]
    vals = list(itertools.product([0.0, 1.0, math.nan], repeat=2))
    if small or n > 2:
        vals = vals[::2]
    return [np.array(a).T for a in itertools.product(vals, repeat=n)]


def _same(got, gcnt, exp, counts):
    return bool((gcnt == counts).all()) and bool(np.abs(got - exp).max() <= 1e-12 * (1.0 + np.abs(exp).max()))


def case_unstructured(case):
    r = R()
    dim, idx = case["dim"], case["points"]
    L = lattice(dim) if case.get("kind") != "latlon" else None
    if case.get("kind") == "latlon":
        pos = np.array(case["coords"], dtype=float)
        dist = ov.great_circle(pos)
        dtype = "h"
        edges_all = case["edges"]
    else:
        pos = np.ascontiguousarray(L[:, idx])
        dist, _ = ov.euclid(pos)
        dtype = "e"
        edges_all = edge_sets(case.get("edge_sizes", (2, 3, 4)))
    n = pos.shape[1]
    extra = {"dim": dim, "kind": case.get("kind", "euclid")}
    # guard band: a pair distance within 1e-9 (relative) of an edge but not exactly on it
    allE = np.unique(np.concatenate([np.asarray(e, dtype=float) for e in edges_all]))
    gap = np.abs(dist[:, None] - allE[None, :])
    if np.any((gap > 0) & (gap < 1e-9 * (1 + allE[None, :]))):
        return r.done(skip="pair distance inside the guard band of a bin edge")
    nsub = 0
    edges_np = [np.asarray(e, dtype=float) for e in edges_all]
    fsets = []
    for nf in case.get("nfields", (1, 2)):
        fsets += field_sets(n, nf, small=case.get("small_fields", False))
    for f in fsets:
        f = np.ascontiguousarray(f, dtype=float)
        for e in ("m", "c"):
            c, valid = ov.contrib(f, e)
            csum, vcount = c.sum(axis=0), valid.sum(axis=0).astype(float)
            for ed in edges_np:
                sums, counts = ov.binned_fast(dist, ed, csum, vcount)
                exp = ov.normalise(sums, counts, e)
                got, gcnt = est.unstructured(f, ed, pos, e, dtype, None)
                nsub += 1
                edges = ed
                if not _same(got, gcnt, exp, counts):
                    r.fail("unstructured estimator == pair enumeration", {"values": got.tolist(), "counts": gcnt.tolist()}, {"values": exp.tolist(), "counts": counts.tolist()}, "counts exact, values 1e-12", field=f.tolist(), edges=[float(x) for x in edges], estimator=e, **extra)
                    if len(r.fails) > 5:
                        return r.done(outcome="F", sub={"estimates": nsub})
    r.evals += nsub
    # python wrapper dispatches to the same result
    f = np.ascontiguousarray(fsets[len(fsets) // 2], dtype=float)
    ed = np.asarray(edges_all[-1], dtype=float)
    a = vmod._unstructured(f, ed, pos, estimator_type="m", distance_type=dtype, num_threads=None)
    b = est.unstructured(f, ed, pos, "m", dtype, None)
    r.true("wrapper == kernel", np.array_equal(a[1], b[1]) and np.allclose(a[0], b[0], rtol=0, atol=0, equal_nan=True), **extra)
    return r.done(outcome=[round(float(x), 6) for x in dist[:3]], sub={"estimates": nsub})


DIRS2 = [[1.0, 0.0], [0.0, 1.0], [1 / math.sqrt(2), 1 / math.sqrt(2)], [1 / math.sqrt(5), 2 / math.sqrt(5)], [-2 / math.sqrt(5), 1 / math.sqrt(5)]]  # last: obtuse to e_x
DIRS3 = [[1.0, 0.0, 0.0], [0.0, 1.0, 0.0], [0.0, 0.0, 1.0], [1 / math.sqrt(2), 1 / math.sqrt(2), 0.0], [-2 / math.sqrt(5), 0.0, 1 / math.sqrt(5)]]
TOLS = [math.pi / 8, math.pi / 4 - 0.01, math.pi / 4 + 0.01, math.pi / 2]
BANDS = [-1.0, 0.6, 1.1]


def case_directional(case):
    r = R()
    dim, idx = case["dim"], case["points"]
    L = lattice(dim)
    pos = np.ascontiguousarray(L[:, idx])
    dist, dvec = ov.euclid(pos)
    n = pos.shape[1]
    D = DIRS2 if dim == 2 else DIRS3
    dirsets = [list(c) for k in (1, 2, 3) for c in itertools.combinations(range(len(D)), k)]
    fsets = [np.array([[0.0, 1.0, 3.5, -2.0][:n]]), np.array([[1.0, math.nan, 0.5, 2.0][:n]]), np.array([[0.0, 1.0, 3.0, 2.0][:n], [math.nan, 2.0, 1.0, 0.0][:n]])]
    edge_list = [[0.0, 0.5, 1.5], [0.0, 1.0, math.sqrt(2.0), 3.0], [0.5, 2.0, 3.0], [0.0, 3.0]]
    nsub, amb = 0, 0
    coincident = bool(np.any(dist == 0))
    for ds in dirsets:
        dirs = np.ascontiguousarray(np.array([D[i] for i in ds], dtype=float))
        for tol in TOLS:
            for bw in BANDS:
                masks, margin = ov.direction_masks(dvec, dist, dirs, tol, bw if bw > 0 else None)
                if 0 < margin < 1e-9:
                    amb += 1
                    continue
                for f in fsets:
                    f = np.ascontiguousarray(f, dtype=float)
                    for e in ("m", "c"):
                        c, valid = ov.contrib(f, e)
                        for edges in edge_list:
                            ed = np.asarray(edges, dtype=float)
                            exp_v, exp_c = [], []
                            for m in masks:
                                sums, counts = ov.binned(dist, ed, c, valid, m)
                                exp_v.append(ov.normalise(sums, counts, e))
                                exp_c.append(counts)
                            exp_v, exp_c = np.array(exp_v), np.array(exp_c)
                            # overlapping search: every direction counts all its pairs
                            got, gcnt = est.directional(f, ed, pos, dirs, tol, bw, False, e, None)
                            nsub += 1
                            if not (np.array_equal(gcnt, exp_c) and np.allclose(got, exp_v, rtol=1e-12, atol=1e-14)):
                                r.fail("directional estimator (overlapping search) == pair enumeration", {"values": got.tolist(), "counts": gcnt.tolist()}, {"values": exp_v.tolist(), "counts": exp_c.tolist()}, "", dirs=ds, angles_tol=tol, bandwidth=bw, field=f.tolist(), edges=edges, estimator=e, separate=False, dim=dim, coincident=coincident)
                            # separated search is documented as an optimisation for non-overlapping
                            # direction bands: where no pair belongs to two directions it must agree
                            overlap = bool(np.any(masks.sum(axis=0) > 1))
                            if not overlap or case.get("judge_overlap", False):
                                got2, gcnt2 = est.directional(f, ed, pos, dirs, tol, bw, True, e, None)
                                nsub += 1
                                if not (np.array_equal(gcnt2, exp_c) and np.allclose(got2, exp_v, rtol=1e-12, atol=1e-14)):
                                    r.fail("directional estimator (separated search, no pair in two directions) == pair enumeration", {"values": got2.tolist(), "counts": gcnt2.tolist()}, {"values": exp_v.tolist(), "counts": exp_c.tolist()}, "", dirs=ds, angles_tol=tol, bandwidth=bw, field=f.tolist(), edges=edges, estimator=e, separate=True, dim=dim, coincident=coincident)
                            if len(r.fails) > 5:
                                return r.done(outcome="F", sub={"estimates": nsub})
    r.evals += nsub
    return r.done(outcome=[round(float(x), 6) for x in dist[:3]] + [n], sub={"estimates": nsub, "ambiguous_skipped": amb})


def case_api_dir(case):
    """vario_estimate with direction= / angles=: separate_dirs is derived by the library"""
    r = R()
    dim, idx = case["dim"], case["points"]
    L = lattice(dim)
    pos = np.ascontiguousarray(L[:, idx])
    dist, dvec = ov.euclid(pos)
    n = pos.shape[1]
    coincident = bool(np.any(dist == 0))
    D = DIRS2 if dim == 2 else DIRS3
    f = np.array([0.0, 1.0, 3.5, -2.0, 0.7][:n])
    nsub = 0
    for ds in [list(c) for k in (1, 2, 3) for c in itertools.combinations(range(len(D)), k)]:
        # not normalised (the API normalises every direction on its own): lengths 2.5, 1 (already a
        # unit vector), 0.4 mixed inside one call, rotated with the size of the direction set
        scale = np.array([[2.5, 1.0, 0.4][(j + len(ds)) % 3] for j in range(len(ds))])
        dirs = np.array([D[i] for i in ds]) * scale[:, None]
        for tol in TOLS:
            for bw in (None, 0.6, 1.1):
                masks, margin = ov.direction_masks(dvec, dist, np.array([D[i] for i in ds]), tol, bw)
                if 0 < margin < 1e-9:
                    continue
                for edges in ([0.0, 0.5, 1.5], [0.0, 1.0, math.sqrt(2.0), 3.0]):
                    for e, name in (("m", "matheron"), ("c", "cressie")):
                        exp_v, exp_c, _ = ov.directional(f[None, :], edges, dist, dvec, [D[i] for i in ds], tol, bw, e)
                        bc, g, cnt = gs.vario_estimate(pos, f, edges, direction=dirs, angles_tol=tol, bandwidth=bw, estimator=name, return_counts=True)
                        nsub += 1
                        g, cnt = np.atleast_2d(g), np.atleast_2d(cnt)
                        if not (np.array_equal(cnt, exp_c) and np.allclose(g, exp_v, rtol=1e-12, atol=1e-14)):
                            dup_in_two = bool(np.any((masks.sum(axis=0) > 1) & (dist == 0)))
                            r.fail("vario_estimate(direction=...) == pair enumeration", {"values": g.tolist(), "counts": cnt.tolist()}, {"values": exp_v.tolist(), "counts": exp_c.tolist()}, "", dirs=ds, angles_tol=tol, bandwidth=bw, edges=edges, estimator=e, dim=dim, coincident=coincident, coincident_pair_in_two_directions=dup_in_two)
                        r.close("bin centers == edge midpoints", bc, (np.array(edges)[1:] + np.array(edges)[:-1]) / 2, rtol=1e-15)
                        if len(r.fails) > 5:
                            return r.done(outcome="F")
    if dim == 2:
        for ang in (0.0, math.pi / 4, 2.0):
            exp_v, exp_c, margin = ov.directional(f[None, :], [0.0, 1.2, 3.0], dist, dvec, [[math.cos(ang), math.sin(ang)]], math.pi / 8, None, "m")
            if 0 < margin < 1e-9:
                continue
            bc, g, cnt = gs.vario_estimate(pos, f, [0.0, 1.2, 3.0], angles=ang, return_counts=True)
            r.true("vario_estimate(angles=a) == direction (cos a, sin a)", np.array_equal(cnt, exp_c[0]) and np.allclose(g, exp_v[0], rtol=1e-12, atol=1e-14), info={"got": g.tolist(), "exp": exp_v.tolist()}, angle=ang, dim=dim, coincident=coincident)
    if dim == 3:
        for az, inc in itertools.product((0.0, math.pi / 4, 2.0, -1.0), (0.3, math.pi / 2, 2.2)):
            d = [math.sin(inc) * math.cos(az), math.sin(inc) * math.sin(az), math.cos(inc)]
            exp_v, exp_c, margin = ov.directional(f[None, :], [0.0, 1.2, 3.0], dist, dvec, [d], math.pi / 8, None, "m")
            if 0 < margin < 1e-9:
                continue
            bc, g, cnt = gs.vario_estimate(pos, f, [0.0, 1.2, 3.0], angles=[az, inc], return_counts=True)
            nsub += 1
            r.true("vario_estimate(angles=(azimuth, inclination)) == direction in ISO spherical coordinates", np.array_equal(cnt, exp_c[0]) and np.allclose(g, exp_v[0], rtol=1e-12, atol=1e-14), info={"got": g.tolist(), "exp": exp_v.tolist()}, angle=[az, inc], dim=dim, coincident=coincident)
    r.evals += nsub
    return r.done(outcome=[round(float(x), 6) for x in dist[:3]] + [n], sub={"estimates": nsub})


def case_axis(case):
    r = R()
    shape = tuple(case["shape"])
    vals = case["values"]
    fld = np.array(vals, dtype=float).reshape(shape)
    nsub = 0
    ncell = fld.size
    masks = [()] + [c for k in (1, 2, 3) for c in itertools.combinations(range(ncell), k)][:: case.get("mask_step", 1)]
    for mk in masks:
        mask = np.zeros(ncell, dtype=bool)
        mask[list(mk)] = True
        mask = mask.reshape(shape)
        for ax, axname in enumerate("xyz"[: len(shape)]):
            for e, name in (("m", "matheron"), ("c", "cressie")):
                exp, _ = ov.axis(fld, mask, ax, e)
                variants = []
                if not mk:
                    variants.append(("plain", fld.copy(), {}))
                else:
                    variants.append(("masked array", np.ma.array(fld.copy(), mask=mask), {}))
                    fn = fld.copy()
                    fn[mask] = np.nan
                    variants.append(("nan", fn, {}))
                    fd = fld.copy()
                    fd[mask] = -999.0
                    variants.append(("no_data", fd, {"no_data": -999.0}))
                    # mask + additional NaN in an unmasked cell that is masked in the reference
                    if len(mk) >= 2:
                        m1 = np.zeros(ncell, dtype=bool)
                        m1[mk[0]] = True
                        fm = fld.copy()
                        fm.ravel()[list(mk[1:])] = np.nan
                        variants.append(("masked array + nan", np.ma.array(fm, mask=m1.reshape(shape)), {}))
                # marker values at the edge of the float range of "ordinary" numbers: 0 (falsy) and +-inf; cells that
                # hold the marker as data are missing as well
                variants = [(v[0], v[1], v[2], exp) for v in variants]
                for marker in (0.0, np.inf, -np.inf):
                    mm = mask | np.isclose(fld, marker)
                    fz = fld.copy()
                    fz[mm] = marker
                    variants.append(("no_data=%r" % marker, fz, {"no_data": marker}, ov.axis(fld, mm, ax, e)[0]))
                for vname, arr, kw, exp in variants:
                    got = gs.vario_estimate_axis(arr, axname, estimator=name, **kw)
                    nsub += 1
                    if not np.allclose(got, exp, rtol=1e-12, atol=1e-14, equal_nan=True):
                        r.fail("vario_estimate_axis == pair enumeration along the axis", got.tolist(), exp.tolist(), "1e-12", variant=vname, axis=ax, estimator=e, mask=list(mk), shape=list(shape))
                        if len(r.fails) > 5:
                            return r.done(outcome="F")
                    if isinstance(axname, str) and vname == "plain":
                        got2 = gs.vario_estimate_axis(arr, ax, estimator=name)
                        r.close("axis given as integer == axis name", got2, got, rtol=0, atol=0)
    r.evals += nsub
    return r.done(outcome=[list(shape), vals[:3]], sub={"estimates": nsub})


def case_api(case):
    """vario_estimate(return_counts=True): isotropic, several fields, lat-lon with geo_scale"""
    r = R()
    kind = case["kind"]
    nsub = 0
    if kind == "latlon":
        pos = np.array(case["coords"], dtype=float)
        dist = ov.great_circle(pos)
        n = pos.shape[1]
        f = np.array([0.0, 1.0, 3.5, -2.0, 0.7][:n])
        for gsc in (1.0, gs.DEGREE_SCALE, gs.KM_SCALE, 17.3):
            for edges_rad in case["edges"]:
                ed = np.asarray(edges_rad, dtype=float)
                gap = np.abs(dist[:, None] - ed[None, :])
                if np.any((gap > 0) & (gap < 1e-9)) or (gsc != 1.0 and np.any(gap == 0)):
                    continue  # unit conversion moves an exact hit by rounding: guard band
                for e, name in (("m", "matheron"), ("c", "cressie")):
                    exp, cnt = ov.unstructured(f[None, :], ed, dist, e)
                    bc, g, c = gs.vario_estimate(pos, f, ed * gsc, latlon=True, geo_scale=gsc, estimator=name, return_counts=True)
                    nsub += 1
                    if not (np.array_equal(c, cnt) and np.allclose(g, exp, rtol=1e-12, atol=1e-14)):
                        r.fail("vario_estimate(latlon, geo_scale) bins pairs by great-circle distance", {"values": g.tolist(), "counts": c.tolist()}, {"values": exp.tolist(), "counts": cnt.tolist()}, "", geo_scale=gsc, edges=list(edges_rad), estimator=e)
                    r.close("lat-lon bin centers in units of geo_scale", bc, (ed[1:] + ed[:-1]) / 2 * gsc, rtol=1e-14)
            # only the cut-off length given (a great-circle distance in units of geo_scale): equally wide bins up to it
            for md in (0.7, 2.5):
                out = gs.vario_estimate(pos, f, latlon=True, geo_scale=gsc, max_dist=md * gsc, return_counts=True)
                nb = len(out[0])
                ed = np.linspace(0.0, md, nb + 1)
                gap = np.abs(dist[:, None] - ed[None, :])
                if np.any(gap < 1e-9):
                    continue
                exp, cnt = ov.unstructured(f[None, :], ed, dist, "m")
                nsub += 1
                r.close("max_dist given: bin centres == midpoints of equal bins up to max_dist", out[0], (ed[1:] + ed[:-1]) / 2 * gsc, rtol=1e-12, geo_scale=gsc, max_dist=md)
                if not (np.array_equal(out[2], cnt) and np.allclose(out[1], exp, rtol=1e-12, atol=1e-14)):
                    r.fail("max_dist given (lat-lon): estimate == pair enumeration over equal bins up to max_dist", {"values": np.asarray(out[1]).tolist(), "counts": np.asarray(out[2]).tolist()}, {"values": exp.tolist(), "counts": cnt.tolist()}, "", geo_scale=gsc, max_dist=md)
    else:
        dim, idx = case["dim"], case["points"]
        pos = np.ascontiguousarray(lattice(dim)[:, idx])
        dist, _ = ov.euclid(pos)
        n = pos.shape[1]
        for f in (np.array([0.0, 1.0, 3.5, -2.0][:n]), np.array([[0.0, 1.0, 3.0, 2.0][:n], [math.nan, 2.0, 1.0, 0.0][:n]])):
            for edges in edge_sets((2, 4)):
                for e, name in (("m", "matheron"), ("c", "cressie")):
                    exp, cnt = ov.unstructured(np.atleast_2d(f), edges, dist, e)
                    bc, g, c = gs.vario_estimate(pos, f, edges, estimator=name, return_counts=True)
                    nsub += 1
                    if not (np.array_equal(c, cnt) and np.allclose(g, exp, rtol=1e-12, atol=1e-14)):
                        r.fail("vario_estimate == pair enumeration", {"values": g.tolist(), "counts": c.tolist()}, {"values": exp.tolist(), "counts": cnt.tolist()}, "", edges=list(edges), estimator=e, dim=dim)
                    g2 = gs.vario_estimate(pos, f, edges, estimator=name)[1]
                    r.close("return_counts=False gives the same values", g2, g, rtol=0, atol=0)
                    # the estimator name is accepted in any capitalisation and means the same estimator
                    for spell in (name.capitalize(), name.upper()):
                        try:
                            gsp = gs.vario_estimate(pos, f, edges, estimator=spell)[1]
                        except ValueError:
                            continue  # a refusal is fine, a different estimator is not
                        r.close("estimator name in another capitalisation gives the same estimator", gsp, g, rtol=0, atol=0, estimator=spell)
        # every way the API lets values be missing, combined: two masked fields with different masks, a NaN,
        # a no_data value and an explicit mask on top
        if n >= 4:
            base = np.array([[0.0, 1.0, 3.0, 2.0][:n], [0.5, 2.0, 1.0, 0.0][:n]])
            for ia, ib, im in itertools.product(range(n), repeat=3):
                eff = base.copy()
                eff[0, ia], eff[1, ib] = np.nan, np.nan
                eff[:, im] = np.nan
                eff[0, (ia + 1) % n] = np.nan  # carried by NaN in the data
                fld = base.copy()
                fld[0, (ia + 1) % n] = np.nan
                mf = np.ma.array(fld, mask=[[i == ia for i in range(n)], [i == ib for i in range(n)]])
                for edges in edge_sets((3,))[:2]:
                    exp, cnt = ov.unstructured(eff, edges, dist, "m")
                    region = np.array([i == im for i in range(n)])
                    bc, g, c = gs.vario_estimate(pos, mf, edges, mask=region, return_counts=True)
                    nsub += 1
                    if not (np.array_equal(c, cnt) and np.allclose(g, exp, rtol=1e-12, atol=1e-14)):
                        r.fail("vario_estimate with masked fields (different masks) + NaN + explicit mask == pair enumeration over each field's valid points", {"values": g.tolist(), "counts": c.tolist()}, {"values": exp.tolist(), "counts": cnt.tolist()}, "", missing=[ia, ib, im], edges=list(edges), dim=dim)
                    if ia == ib:
                        # the same region mask object used again for a complete field: only the region is left out
                        eff2 = base.copy()
                        eff2[:, im] = np.nan
                        exp2, cnt2 = ov.unstructured(eff2, edges, dist, "m")
                        bc, g, c = gs.vario_estimate(pos, np.ma.array(base.copy(), mask=np.zeros(base.shape, dtype=bool)), edges, mask=region, return_counts=True)
                        nsub += 1
                        if not (np.array_equal(c, cnt2) and np.allclose(g, exp2, rtol=1e-12, atol=1e-14)):
                            r.fail("explicit mask array used for a second call (complete fields) == pair enumeration without the masked region", {"values": g.tolist(), "counts": c.tolist()}, {"values": exp2.tolist(), "counts": cnt2.tolist()}, "", missing=[ia, ib, im], edges=list(edges), dim=dim)
    r.evals += nsub
    return r.done(outcome=[kind, nsub], sub={"estimates": nsub})


GROUPS = {"unstructured": case_unstructured, "directional": case_directional, "api_directional": case_api_dir, "axis": case_axis, "api": case_api}

LATS = [-90.0, 0.0, 45.0, 90.0]
LONS = [-180.0, 0.0, 90.0, 180.0, 270.0]
RAD_EDGES = [0.0, math.pi / 4, math.pi / 2, 2.0, math.pi, 3.5]


def run(chk):
    tier, seed = chk.tier, chk.seed
    ucases = []
    for dim, sizes in ((1, (2, 3, 4) if tier == "quick" else (2, 3, 4, 5)), (2, (2, 3, 4)), (3, (2, 3) if tier == "quick" else (2, 3, 4))):
        npts = lattice(dim).shape[1]
        for n in sizes:
            big = (dim >= 2 and n >= 4) or (dim == 3 and n >= 3) or (dim == 1 and n >= 5)
            for comb in itertools.combinations_with_replacement(range(npts), n):
                two = (n <= 3 if dim == 1 else n <= 2) if tier == "quick" else n <= 3
                c = {"dim": dim, "points": list(comb), "small_fields": big, "nfields": (1, 2) if two else (1,)}
                if tier == "quick" and (dim == 3 or (dim == 2 and n >= 4)):
                    c["edge_sizes"] = (2, 3)
                ucases.append(c)
    # ordered tuples (point order matters to the loops) for the smallest sizes
    for dim in (1, 2):
        npts = lattice(dim).shape[1]
        for tup in itertools.product(range(npts), repeat=3 if dim == 1 else 2):
            if list(tup) != sorted(tup):
                ucases.append({"dim": dim, "points": list(tup), "small_fields": True, "nfields": (1,)})
    chk.run("unstructured", case_unstructured, ucases, rule="all point multisets (size 2-4; 1-D to 5 thorough) of the lattice {0,1,2}^d (3-D: {0,1}^3 + 2 points) x every assignment of {0,1,3.5,NaN} (one field) / {0,1,NaN}^2 (two fields) x all increasing edge subsets of size 2-4 of {0,.5,1,sqrt2,1.5,2,3} x both estimators; direct kernel calls, counts exact", chunk=8)
    # lat-lon
    pts = list(itertools.product(LATS, LONS))
    gl = generic_values(seed, 2, -80, 80, "C08lat")
    pts.append((gl[0], gl[1] * 2))
    edges_ll = [list(c) for k in (2, 3, 4) for c in itertools.combinations(RAD_EDGES, k)]
    lcases = []
    for n in (2, 3):
        for comb in itertools.combinations_with_replacement(range(len(pts)), n):
            if tier == "quick" and n == 3 and (comb[0] + comb[1] + comb[2]) % 3:
                continue
            co = np.array([pts[i] for i in comb]).T
            lcases.append({"dim": 2, "kind": "latlon", "points": list(comb), "coords": co.tolist(), "edges": edges_ll, "small_fields": True, "nfields": (1,)})
    chk.run("unstructured", case_unstructured, lcases, rule="lat-lon: point multisets from {-90,0,45,90}x{-180,0,90,180,270} + generic (poles, date line, antipodes) x fields x radian edge subsets of {0, pi/4, pi/2, 2, pi, 3.5}: haversine kernel vs great-circle distance by the atan2 formula", chunk=8, max_skip_frac=0.6)
    dcases = []
    for dim, sizes in ((2, (2, 3) if tier == "quick" else (2, 3, 4)), (3, (2,) if tier == "quick" else (2, 3))):
        npts = lattice(dim).shape[1]
        for n in sizes:
            for comb in itertools.combinations_with_replacement(range(npts), n):
                dcases.append({"dim": dim, "points": list(comb)})
    chk.run("directional", case_directional, dcases, rule="point multisets x all direction sets of size 1-3 from {e_x, e_y, (e_z), diagonal, (1,2)/sqrt5} x angles_tol {pi/8, pi/4-.01, pi/4+.01, pi/2} x bandwidth {off, .6, 1.1} x overlapping / separated search x 3 field sets x 4 edge sets x both estimators", chunk=2)
    acases = dcases if tier != "quick" else [c for c in dcases if len(c["points"]) <= 3][::2] + [{"dim": 2, "points": [0, 0, 1, 3]}, {"dim": 2, "points": [0, 4, 4, 8]}]
    chk.run("api_directional", case_api_dir, acases, rule="vario_estimate(direction= un-normalised vectors | angles=, angles_tol, bandwidth, return_counts=True): the library derives separated/overlapping search itself", chunk=2)
    grids = []
    for shape in ([(2,), (3,), (4,), (2, 2), (3, 2), (2, 3)] + ([(4, 3), (3, 2, 2)] if tier != "quick" else [(3, 3), (2, 2, 2)])):
        ncell = int(np.prod(shape))
        combos = list(itertools.product([0.0, 1.0, 3.5], repeat=ncell)) if ncell <= 6 else None
        if combos is None:
            rng = np.random.RandomState(7 + seed)
            combos = [tuple(rng.choice([0.0, 1.0, 3.5], size=ncell)) for _ in range(40)] + [tuple([0.0] * ncell), tuple(float(i % 3) for i in range(ncell))]
        step = 1 if (tier != "quick" or ncell <= 4) else 7
        for v in combos[::step]:
            grids.append({"shape": list(shape), "values": list(v), "mask_step": 1 if ncell <= 6 else 5})
    chk.run("axis", case_axis, grids, rule="all grids of shape up to (3,2)/(2,3) (quick; thorough (4,3),(3,2,2)) with values in {0,1,3.5} x every mask pattern with <= 3 masked cells x masked-array / NaN / no_data / mask+NaN variants x axis x both estimators", chunk=8)
    apic = [{"kind": "euclid", "dim": d, "points": list(c)} for d in (1, 2, 3) for c in list(itertools.combinations_with_replacement(range(lattice(d).shape[1]), 3))[:: (1 if tier != "quick" else 5)]]
    # 4-point sets for the combined missing-value case (masks x NaN x explicit mask)
    apic += [{"kind": "euclid", "dim": d, "points": list(c)} for d in (1, 2) for c in list(itertools.combinations_with_replacement(range(lattice(d).shape[1]), 4))[:: (3 if tier != "quick" else (5 if d == 1 else 60))]]
    apic += [c for c in lcases[:: (1 if tier != "quick" else 4)]]
    for c in apic:
        c.setdefault("kind", "euclid")
    chk.run("api", case_api, apic, rule="vario_estimate(return_counts=True) isotropic with 1 and 2 fields; 4-point sets x all (masked position field 1, masked position field 2, explicit mask position) + NaN; lat-lon with geo_scale in {1, degree, km, 17.3} and bins scaled accordingly", chunk=8, min_outcomes=2)
    chk.assume("counts are compared exactly and values to 1e-12; a case whose decisive comparison (pair distance vs edge, angle vs tolerance, band distance vs bandwidth) lies within 1e-9 of the boundary without hitting it exactly is skipped (counted); exact hits are judged with the documented half-open / strict semantics")
    chk.assume("the separated-directions search is judged where no pair belongs to two of the given directions (its documented precondition) and, through vario_estimate, wherever the library itself selects it")
