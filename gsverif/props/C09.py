"""C09 - variogram estimation respects its invariances and preprocessing semantics.

Metamorphic relations through vario_estimate, each on a complete small space: all
permutations of the points; the 8 / 48 lattice symmetries (exact arithmetic) and generic
rigid motions; field offsets and factors; every way of removing <= 2 points vs masking /
no_data / NaN; structured mesh vs point list; seeded sub-sampling vs the reproducible subset;
rotating coordinates and directions together; lat-lon unit conversion; standard bins;
trend / mean / normalizer preprocessing.
"""
import itertools
import math
import warnings

import numpy as np

import gstools as gs

from ..core import R, generic_values
from ..oracles import geometry as og
from ..oracles import variogram as ov

LEVEL = "exploration"
warnings.simplefilter("ignore")

VALS = np.array([0.0, 1.0, 3.5, -2.0, 0.7, 2.2, 1.3])


def _est(pos, f, edges, **kw):
    bc, g, c = gs.vario_estimate(pos, f, edges, return_counts=True, **kw)
    return np.asarray(g), np.asarray(c)


def _lat(dim):
    return np.array(list(itertools.product([0.0, 1.0, 2.0], repeat=dim))).T


EDGE_SETS = [[0.0, 0.5, 1.5, 3.0], [0.0, 1.0, math.sqrt(2.0), 2.0, 3.0], [0.5, 2.0]]


def case_perm(case):
    """permutations, lattice symmetries, offsets and factors"""
    r = R()
    dim, idx = case["dim"], case["points"]
    pos = _lat(dim)[:, idx]
    n = len(idx)
    f = VALS[:n].copy()
    f2 = np.array([VALS[:n], VALS[:n][::-1] * 0.5])
    f2[1, 0] = np.nan
    extra = {"dim": dim, "n": n}
    for edges in EDGE_SETS:
        for est in ("matheron", "cressie"):
            for fld in (f, f2):
                g0, c0 = _est(pos, fld, edges, estimator=est)
                for perm in itertools.permutations(range(n)):
                    perm = list(perm)
                    g, c = _est(pos[:, perm], np.atleast_2d(fld)[:, perm] if fld.ndim == 2 else fld[perm], edges, estimator=est)
                    if not (np.array_equal(c, c0) and np.allclose(g, g0, rtol=1e-12, atol=1e-14)):
                        r.fail("estimate unchanged by permuting the points", {"g": g.tolist(), "c": c.tolist()}, {"g": g0.tolist(), "c": c0.tolist()}, "", perm=perm, edges=edges, estimator=est, **extra)
                        break
                r.evals += math.factorial(n)
                # lattice symmetries: signed coordinate permutations about the lattice centre (exact)
                for axes in itertools.permutations(range(dim)):
                    for signs in itertools.product([1, -1], repeat=dim):
                        q = np.array([(1 + s * (pos[a] - 1)) for a, s in zip(axes, signs)])
                        g, c = _est(q, fld, edges, estimator=est)
                        r.evals += 1
                        if not (np.array_equal(c, c0) and np.allclose(g, g0, rtol=1e-12, atol=1e-14)):
                            r.fail("isotropic estimate unchanged by a lattice symmetry (rigid motion)", {"g": g.tolist(), "c": c.tolist()}, {"g": g0.tolist(), "c": c0.tolist()}, "", axes=list(axes), signs=list(signs), edges=edges, estimator=est, **extra)
                # integer translation (exact)
                g, c = _est(pos + np.arange(1, dim + 1)[:, None] * 3.0, fld, edges, estimator=est)
                r.true("estimate unchanged by a translation", np.array_equal(c, c0) and np.allclose(g, g0, rtol=1e-12, atol=1e-14), edges=edges, estimator=est, **extra)
                # field + c, a * field
                g, c = _est(pos, fld + 2.5, edges, estimator=est)
                r.true("estimate unchanged by adding a constant to the field", np.array_equal(c, c0) and np.allclose(g, g0, rtol=1e-10, atol=1e-12), info={"g": g.tolist(), "g0": g0.tolist()}, edges=edges, estimator=est, **extra)
                for a in (-3.0, 0.5):
                    g, c = _est(pos, a * fld, edges, estimator=est)
                    r.true("estimate scales with the square of a field factor", np.array_equal(c, c0) and np.allclose(g, a * a * g0, rtol=1e-10, atol=1e-12), info={"g": g.tolist(), "g0": g0.tolist()}, factor=a, edges=edges, estimator=est, **extra)
    return r.done(outcome=[dim] + idx)


def case_rigid(case):
    """generic rotations + translations with bins kept outside the guard band"""
    r = R()
    dim, idx = case["dim"], case["points"]
    pos = _lat(dim)[:, idx].astype(float)
    n = len(idx)
    f = VALS[:n]
    dist, _ = ov.euclid(pos)
    edges = [0.0, 0.75, 1.2, 1.7, 2.4, 3.1]  # no lattice distance within 0.04 of an edge
    if np.any(np.abs(dist[:, None] - np.array(edges)[None, :]) < 1e-6):
        return r.done(skip="distance near edge")
    g0, c0 = _est(pos, f, edges)
    for ang in case["angles"]:
        Rm = og.rotation(dim, ang[: og.n_angles(dim)]) if dim > 1 else np.eye(1)
        q = Rm @ pos + np.array([0.37, -1.9, 12.5])[:dim, None]
        g, c = _est(q, f, edges)
        r.true("isotropic estimate unchanged by a generic rigid motion", np.array_equal(c, c0) and np.allclose(g, g0, rtol=1e-10, atol=1e-12), info={"g": g.tolist(), "g0": g0.tolist()}, angles=ang, dim=dim)
        if dim > 1:
            # directional: rotate coordinates and directions together
            dirs = np.eye(dim)[: min(dim, 2)]
            gd0, cd0 = _est(pos, f, edges, direction=dirs, angles_tol=math.pi / 8 + 0.05, bandwidth=0.9)
            masks, margin = ov.direction_masks(ov.euclid(pos)[1], dist, dirs, math.pi / 8 + 0.05, 0.9)
            if margin > 1e-6:
                gd, cd = _est(q, f, edges, direction=(Rm @ dirs.T).T, angles_tol=math.pi / 8 + 0.05, bandwidth=0.9)
                r.true("directional estimate rotates with the coordinate system", np.array_equal(cd, cd0) and np.allclose(gd, gd0, rtol=1e-10, atol=1e-12), info={"g": np.asarray(gd).tolist(), "g0": np.asarray(gd0).tolist()}, angles=ang, dim=dim)
    if dim == 2:
        for a in (0.0, math.pi / 4, 2.0, -1.1):
            ga, ca = _est(pos, f, edges, angles=a)
            gd, cd = _est(pos, f, edges, direction=[[math.cos(a), math.sin(a)]])
            r.true("angles=a == direction (cos a, sin a)", np.array_equal(ca, cd) and np.allclose(ga, gd, rtol=1e-12, atol=1e-14), angle=a, dim=dim)
    if dim == 3:
        for az, inc in ((0.0, math.pi / 2), (math.pi / 4, math.pi / 2), (1.0, 0.6), (0.0, 0.0)):
            ga, ca = _est(pos, f, edges, angles=[az, inc])
            d = [math.cos(az) * math.sin(inc), math.sin(az) * math.sin(inc), math.cos(inc)]
            masks, margin = ov.direction_masks(ov.euclid(pos)[1], dist, [d], math.pi / 8, None)
            if margin < 1e-9:
                continue
            gd, cd = _est(pos, f, edges, direction=[d])
            r.true("angles=(azimuth, inclination) == direction in ISO spherical coordinates", np.array_equal(ca, cd) and np.allclose(ga, gd, rtol=1e-12, atol=1e-14), angle=[az, inc], dim=dim)
    return r.done(outcome=[dim] + idx)


def case_dirlist(case):
    """the estimate for one direction does not depend on the other directions requested with it nor on
    its place in the list (also when the search cones overlap); quarter turns of the lattice map the
    direction set onto itself in another order"""
    r = R()
    dim, idx = case["dim"], case["points"]
    pos = _lat(dim)[:, idx]
    n = len(idx)
    f = VALS[:n]
    dist, dvec = ov.euclid(pos)
    edges = [0.0, 0.75, 1.2, 1.7, 2.4, 3.1]
    s2 = math.sqrt(0.5)
    D = [[1.0, 0.0], [0.0, 1.0], [s2, s2], [-s2, s2]] if dim == 2 else [[1.0, 0.0, 0.0], [0.0, 1.0, 0.0], [0.0, 0.0, 1.0], [s2, s2, 0.0]]
    for tol in (math.pi / 8, 50 * math.pi / 180, 1.2):
        masks, margin = ov.direction_masks(dvec, dist, np.array(D), tol, None)
        if 0 < margin < 1e-9:
            continue
        single = [_est(pos, f, edges, direction=[d], angles_tol=tol) for d in D]
        for k in (2, 3, 4):
            for sel in itertools.permutations(range(len(D)), k):
                if k == 4 and sel[0] > 1:
                    continue
                g, c = _est(pos, f, edges, direction=[D[i] for i in sel], angles_tol=tol)
                ok = all(np.array_equal(np.atleast_2d(c)[j], np.atleast_2d(single[i][1])[0]) and np.allclose(np.atleast_2d(g)[j], np.atleast_2d(single[i][0])[0], rtol=1e-12, atol=1e-14) for j, i in enumerate(sel))
                if not ok:
                    r.fail("estimate for a direction is independent of the other directions in the list and of its position", {"counts": np.asarray(c).tolist()}, {"single": [np.asarray(single[i][1]).tolist() for i in sel]}, "", sel=list(sel), angles_tol=tol, dim=dim)
                else:
                    r.evals += 1
        # quarter turn about the last axis: x -> y, y -> -x  (direction -x is the same axis as x)
        Q = np.eye(dim)
        Q[0, 0], Q[0, 1], Q[1, 0], Q[1, 1] = 0.0, -1.0, 1.0, 0.0
        q = Q @ pos
        g0, c0 = _est(pos, f, edges, direction=[D[0], D[1]], angles_tol=tol)
        g1, c1 = _est(q, f, edges, direction=[D[0], D[1]], angles_tol=tol)
        r.true("quarter turn of the coordinates swaps the x and y directional variograms", np.array_equal(c1[0], c0[1]) and np.array_equal(c1[1], c0[0]) and np.allclose(g1[0], g0[1], rtol=1e-12, atol=1e-14) and np.allclose(g1[1], g0[0], rtol=1e-12, atol=1e-14), info={"c0": np.asarray(c0).tolist(), "c1": np.asarray(c1).tolist()}, angles_tol=tol, dim=dim)
    return r.done(outcome=[dim] + idx)


def case_missing(case):
    """masked / no_data / NaN values are treated exactly like removed points"""
    r = R()
    dim, idx = case["dim"], case["points"]
    pos = _lat(dim)[:, idx].astype(float)
    n = len(idx)
    f = VALS[:n].copy()
    extra = {"dim": dim, "n": n}
    for edges in EDGE_SETS[:2]:
        for est in ("matheron", "cressie"):
            for k in (1, 2):
                for rem in itertools.combinations(range(n), k):
                    keep = [i for i in range(n) if i not in rem]
                    if len(keep) < 2:
                        continue
                    g0, c0 = _est(pos[:, keep], f[keep], edges, estimator=est)
                    m = np.zeros(n, dtype=bool)
                    m[list(rem)] = True
                    variants = {}
                    variants["mask="] = dict(field=f.copy(), kw={"mask": m})
                    variants["masked array"] = dict(field=np.ma.array(f.copy(), mask=m), kw={})
                    fn = f.copy()
                    fn[m] = np.nan
                    variants["NaN"] = dict(field=fn, kw={})
                    fd = f.copy()
                    fd[m] = -999.0
                    variants["no_data"] = dict(field=fd, kw={"no_data": -999.0})
                    for marker in (np.inf, -np.inf, 0.0):
                        if np.any(np.isclose(f[keep], marker)):
                            continue
                        fd = f.copy()
                        fd[m] = marker
                        variants["no_data=%r" % marker] = dict(field=fd, kw={"no_data": marker})
                    if k == 2:
                        m1, m2 = np.zeros(n, dtype=bool), np.zeros(n, dtype=bool)
                        m1[rem[0]], m2[rem[1]] = True, True
                        variants["mask= union masked array"] = dict(field=np.ma.array(f.copy(), mask=m1), kw={"mask": m2})
                        fx = f.copy()
                        fx[rem[1]] = np.nan
                        variants["masked array + NaN"] = dict(field=np.ma.array(fx, mask=m1), kw={})
                    for name, v in variants.items():
                        g, c = _est(pos, v["field"], edges, estimator=est, **v["kw"])
                        r.evals += 1
                        if not (np.array_equal(c, c0) and np.allclose(g, g0, rtol=1e-12, atol=1e-14)):
                            r.fail("missing values treated like removed points", {"g": g.tolist(), "c": c.tolist()}, {"g": g0.tolist(), "c": c0.tolist()}, "", how=name, removed=list(rem), edges=edges, estimator=est, **extra)
            # two stacked fields with different missing patterns == pooled sums of the single-field runs
            fa, fb = f.copy(), f[::-1].copy() * 0.5 + 0.2
            for ia, ib in itertools.product(range(n), repeat=2):
                A, B = fa.copy(), fb.copy()
                A[ia], B[ib] = np.nan, np.nan
                exp, cnt = ov.unstructured(np.array([A, B]), edges, ov.euclid(pos)[0], est[0])
                for name, fld in (("NaN stack", np.array([A, B])), ("masked stack", np.ma.array([fa, fb], mask=[[i == ia for i in range(n)], [i == ib for i in range(n)]])), ("list of masked arrays", [np.ma.array(fa, mask=[i == ia for i in range(n)]), np.ma.array(fb, mask=[i == ib for i in range(n)])])):
                    g, c = _est(pos, fld, edges, estimator=est)
                    r.evals += 1
                    if name == "masked stack":
                        # an explicit mask on top of the fields' own (different) masks removes one more point for all fields
                        for im in range(n):
                            A2, B2 = A.copy(), B.copy()
                            A2[im], B2[im] = np.nan, np.nan
                            exp2, cnt2 = ov.unstructured(np.array([A2, B2]), edges, ov.euclid(pos)[0], est[0])
                            g2, c2 = _est(pos, fld, edges, estimator=est, mask=np.array([i == im for i in range(n)]))
                            r.evals += 1
                            if not (np.array_equal(c2, cnt2) and np.allclose(g2, exp2, rtol=1e-12, atol=1e-14)):
                                r.fail("stacked masked fields with different masks plus an explicit mask: each field keeps its own valid pairs outside the explicit mask", {"g": g2.tolist(), "c": c2.tolist()}, {"g": exp2.tolist(), "c": cnt2.tolist()}, "", missing=[ia, ib], explicit=im, edges=edges, estimator=est, **extra)
                    if not (np.array_equal(c, cnt) and np.allclose(g, exp, rtol=1e-12, atol=1e-14)):
                        r.fail("stacked fields with different missing patterns: each field contributes its own valid pairs", {"g": g.tolist(), "c": c.tolist()}, {"g": exp.tolist(), "c": cnt.tolist()}, "", how=name, missing=[ia, ib], edges=edges, estimator=est, **extra)
    return r.done(outcome=[dim] + idx)


def case_struct(case):
    """structured mesh == equivalent point list; seeded sub-sampling == estimate on that subset"""
    r = R()
    shape = case["shape"]
    dim = len(shape)
    ax = [np.array([0.0, 1.0, 2.5])[:s] for s in shape]
    grid = np.array([g.ravel() for g in np.meshgrid(*ax, indexing="ij")])
    ncell = grid.shape[1]
    rng = np.random.RandomState(case["seed"])
    fld = rng.choice([0.0, 1.0, 3.5, -2.0], size=shape)
    fld2 = np.array([fld, fld.T.reshape(shape) if dim == 2 and shape[0] == shape[1] else fld[::-1] * 0.5])
    edges = [0.0, 0.8, 1.3, 2.0, 3.6]
    extra = {"shape": list(shape)}
    for est in ("matheron", "cressie"):
        for f_s, f_u in ((fld, fld.ravel()), (fld2, fld2.reshape(2, -1))):
            gs_, cs_ = _est(ax, f_s, edges, mesh_type="structured", estimator=est)
            gu, cu = _est(grid, f_u, edges, estimator=est)
            r.true("structured mesh == equivalent point list", np.array_equal(cs_, cu) and np.allclose(gs_, gu, rtol=1e-12, atol=1e-14), info={"s": gs_.tolist(), "u": gu.tolist()}, estimator=est, **extra)
        # axes that are not ascending (descending, irregular, unsorted): the values stay attached to their coordinates
        for variant in ("descending", "unsorted", "mixed"):
            axv = []
            for i_, a_ in enumerate(ax):
                b_ = np.array([2.5, 0.9, 0.0])[: len(a_)] if variant == "descending" else (np.array([1.0, 2.5, 0.0])[: len(a_)] if variant == "unsorted" else (a_ if i_ % 2 else np.array([2.5, 0.9, 0.0])[: len(a_)]))
                axv.append(b_)
            gridv = np.array([g.ravel() for g in np.meshgrid(*axv, indexing="ij")])
            gs_, cs_ = _est(axv, fld, edges, mesh_type="structured", estimator=est)
            gu, cu = _est(gridv, fld.ravel(), edges, estimator=est)
            r.true("structured mesh with non-ascending axes == equivalent point list", np.array_equal(cs_, cu) and np.allclose(gs_, gu, rtol=1e-12, atol=1e-14), info={"s": gs_.tolist(), "u": gu.tolist()}, estimator=est, axes=variant, **extra)
            if dim == 2:
                d_ = [[1.0, 0.0], [0.6, 0.8]]
                gs_, cs_ = _est(axv, fld, edges, mesh_type="structured", estimator=est, direction=d_, angles_tol=0.5)
                gu, cu = _est(gridv, fld.ravel(), edges, estimator=est, direction=d_, angles_tol=0.5)
                r.true("structured mesh with non-ascending axes == equivalent point list (directional)", np.array_equal(cs_, cu) and np.allclose(gs_, gu, rtol=1e-12, atol=1e-14), estimator=est, axes=variant, **extra)
        m = np.zeros(shape, dtype=bool)
        m.ravel()[1] = True
        gs_, cs_ = _est(ax, fld, edges, mesh_type="structured", mask=m, estimator=est)
        gu, cu = _est(np.delete(grid, 1, axis=1), np.delete(fld.ravel(), 1), edges, estimator=est)
        r.true("structured mesh with mask == point list without the masked cell", np.array_equal(cs_, cu) and np.allclose(gs_, gu, rtol=1e-12, atol=1e-14), estimator=est, **extra)
        for k in (2, 3, ncell - 1, ncell, ncell + 2):
            if k < 2:
                continue
            for sseed in (0, 7, 12345):
                gk, ck = _est(grid, fld.ravel(), edges, sampling_size=k, sampling_seed=sseed, estimator=est)
                if k < ncell:
                    sub = np.random.RandomState(sseed).choice(np.arange(ncell), k, replace=False)
                    g0, c0 = _est(grid[:, sub], fld.ravel()[sub], edges, estimator=est)
                    r.true("sub-sample has k distinct points", len(set(sub.tolist())) == k, **extra)
                else:
                    g0, c0 = _est(grid, fld.ravel(), edges, estimator=est)
                r.true("seeded sub-sampling == estimate on the reproducible subset", np.array_equal(ck, c0) and np.allclose(gk, g0, rtol=1e-12, atol=1e-14), info={"g": gk.tolist(), "g0": g0.tolist(), "c": ck.tolist(), "c0": c0.tolist()}, k=k, sampling_seed=sseed, estimator=est, **extra)
                r.true("pair count of a k-subset == k(k-1)/2 within the bins' reach", int(ck.sum()) <= min(k, ncell) * (min(k, ncell) - 1) // 2, k=k, **extra)
    return r.done(outcome=list(shape) + [case["seed"]])


LL_PTS = [(-90.0, 0.0), (-60.0, -120.0), (0.0, 0.0), (0.0, 180.0), (45.0, 90.0), (45.0, -180.0), (90.0, 270.0), (10.0, 179.0), (12.5, -33.0)]


def case_latlon(case):
    r = R()
    idx = case["points"]
    pos = np.array([LL_PTS[i] for i in idx]).T
    n = len(idx)
    f = VALS[:n]
    dist = ov.great_circle(pos)
    edges = np.array([0.0, 0.35, 0.9, 1.45, 2.1, 2.8, 3.3])
    if np.any(np.abs(dist[:, None] - edges[None, :]) < 1e-6):
        return r.done(skip="great-circle distance near a bin edge")
    g0, c0 = _est(pos, f, edges, latlon=True)
    exp, cnt = ov.unstructured(f[None, :], edges, dist, "m")
    r.true("radian run == great-circle pair enumeration", np.array_equal(c0, cnt) and np.allclose(g0, exp, rtol=1e-12, atol=1e-14), info={"g": g0.tolist(), "exp": exp.tolist()})
    for gsc in (gs.DEGREE_SCALE, gs.KM_SCALE, 17.3, 0.01):
        be = edges * gsc  # one edge array reused by several calls, as a user does for several fields
        g, c = _est(pos, f, be, latlon=True, geo_scale=gsc)
        r.true("great-circle binning in any unit == binning in radians after unit conversion", np.array_equal(c, c0) and np.allclose(g, g0, rtol=1e-12, atol=1e-14), info={"g": g.tolist(), "g0": g0.tolist(), "c": c.tolist(), "c0": c0.tolist()}, geo_scale=gsc)
        bc2, g2, c2 = gs.vario_estimate(pos, f, be, latlon=True, geo_scale=gsc, return_counts=True)
        r.true("second call with the same bin-edge array gives the same estimate", np.array_equal(c2, c0) and np.allclose(g2, g0, rtol=1e-12, atol=1e-14), info={"g": np.asarray(g2).tolist(), "g0": g0.tolist()}, geo_scale=gsc)
        r.close("bin centers are the midpoints of the given edges (in the given unit)", bc2, (edges[1:] + edges[:-1]) / 2 * gsc, rtol=1e-13, geo_scale=gsc)
        # standard bins scale with the unit and follow the documented rule
        sb = gs.variogram.standard_bins(pos, latlon=True, geo_scale=gsc)
        sb1 = gs.variogram.standard_bins(pos, latlon=True)
        r.close("standard_bins(geo_scale=s) == s * standard_bins(radians)", sb, sb1 * gsc, rtol=1e-12, atol=0, geo_scale=gsc)
        bc, gg = gs.vario_estimate(pos, f, latlon=True, geo_scale=gsc)[:2]
        bc1, gg1 = gs.vario_estimate(pos, f, latlon=True)[:2]
        r.close("automatic bins: centers scale with the unit", bc, bc1 * gsc, rtol=1e-12, geo_scale=gsc)
        r.close("automatic bins: estimates independent of the unit", gg, gg1, rtol=1e-10, atol=1e-12, geo_scale=gsc)
    # documented rule: n = number of points -> bins by Sturges' rule, max_dist = 1/3 of the
    # great-circle distance belonging to the bounding-box diameter of the points on the sphere
    xyz = og.latlon2xyz(pos[0], pos[1], 1.0)
    diam = np.linalg.norm(xyz.max(axis=1) - xyz.min(axis=1))
    gc = 2 * math.asin(min(diam / 2, 1.0))
    sb1 = gs.variogram.standard_bins(pos, latlon=True)
    r.close("standard_bins(latlon): first edge 0, last edge == great-circle(box diameter)/3", [sb1[0], sb1[-1]], [0.0, gc / 3], rtol=1e-12, atol=1e-15)
    r.close("standard_bins equidistant", np.diff(sb1), np.full(len(sb1) - 1, sb1[-1] / (len(sb1) - 1)), rtol=1e-10)
    return r.done(outcome=idx)


def case_stdbins(case):
    r = R()
    dim, n = case["dim"], case["n"]
    rng = np.random.RandomState(case["seed"])
    pos = rng.uniform(-3, 7, size=(dim, n))
    sb = gs.variogram.standard_bins(pos, dim=dim)
    diam = np.linalg.norm(pos.max(axis=1) - pos.min(axis=1))
    r.close("standard_bins: from 0 to one third of the box diameter", [sb[0], sb[-1]], [0.0, diam / 3], rtol=1e-12, atol=0, dim=dim, n=n)
    r.eq("standard_bins: number of bins by Sturges' rule (as implemented: ceil(2 log2 n + 1))", len(sb) - 1, int(math.ceil(2 * math.log2(n) + 1)), dim=dim, n=n)
    r.close("standard_bins equidistant", np.diff(sb), np.full(len(sb) - 1, sb[-1] / (len(sb) - 1)), rtol=1e-10, dim=dim, n=n)
    sb2 = gs.variogram.standard_bins(pos, dim=dim, bin_no=5, max_dist=2.5)
    r.close("standard_bins(bin_no, max_dist) == linspace", sb2, np.linspace(0, 2.5, 6), rtol=1e-15, atol=0, dim=dim, n=n)
    sb3 = gs.variogram.standard_bins(pos, dim=dim, max_dist=2.5)
    r.close("standard_bins(max_dist) keeps the rule for the bin number", [len(sb3), sb3[-1]], [len(sb), 2.5], rtol=1e-15, dim=dim, n=n)
    f = rng.normal(size=n)
    bc, g = gs.vario_estimate(pos, f)
    r.close("vario_estimate without bin_edges uses the standard bins", bc, (sb[1:] + sb[:-1]) / 2, rtol=1e-12, dim=dim, n=n)
    bc, g = gs.vario_estimate(pos, f, bin_no=4, max_dist=3.0)
    r.close("vario_estimate forwards bin_no / max_dist", bc, (np.linspace(0, 3, 5)[1:] + np.linspace(0, 3, 5)[:-1]) / 2, rtol=1e-12, dim=dim, n=n)
    if dim == 2:
        ax = [np.linspace(0, 3, 4), np.linspace(-1, 1, 3)]
        g = np.array([a.ravel() for a in np.meshgrid(*ax, indexing="ij")])
        r.close("standard_bins(structured axes) == standard_bins(grid points)", gs.variogram.standard_bins(ax, dim=2, mesh_type="structured"), gs.variogram.standard_bins(g, dim=2), rtol=1e-14, dim=dim, n=n)
    return r.done(outcome=[dim, n, case["seed"]])


def case_preproc(case):
    """trend / mean / normalizer preprocessing == estimating on the manually preprocessed field"""
    r = R()
    dim, idx = case["dim"], case["points"]
    pos = _lat(dim)[:, idx].astype(float)
    n = len(idx)
    f = np.abs(VALS[:n]) + 0.6
    edges = EDGE_SETS[0]
    mean_o = {"none": None, "const": 0.4, "call": (lambda *p: 0.1 + 0.05 * p[0])}
    trend_o = {"none": None, "const": 0.25, "call": (lambda *p: 0.2 - 0.03 * p[0] + 0.01 * p[-1])}
    norm_o = {"none": None, "ln": gs.normalizer.LogNormal(), "bc": gs.normalizer.BoxCox(lmbda=0.5), "yj": gs.normalizer.YeoJohnson(lmbda=0.3)}
    ev = lambda v: 0.0 if v is None else (np.asarray(v(*pos), dtype=float) if callable(v) else float(v))
    for mk, tk, nk in itertools.product(mean_o, trend_o, norm_o):
        z = f - ev(trend_o[tk])
        if norm_o[nk] is not None:
            if np.any(z <= 0) and nk in ("ln", "bc"):
                continue
            z = norm_o[nk].normalize(z)
        z = z - ev(mean_o[mk])
        for est in ("matheron", "cressie"):
            g0, c0 = _est(pos, z, edges, estimator=est)
            g, c = _est(pos, f.copy(), edges, estimator=est, mean=mean_o[mk], trend=trend_o[tk], normalizer=norm_o[nk])
            r.true("preprocessing == estimate on normalize(field - trend) - mean", np.array_equal(c, c0) and np.allclose(g, g0, rtol=1e-10, atol=1e-12), info={"g": g.tolist(), "g0": g0.tolist()}, mean=mk, trend=tk, norm=nk, estimator=est, dim=dim)
            f2 = np.array([f, f[::-1]])
            z2a = f[::-1] - ev(trend_o[tk])
            ok = True
            if norm_o[nk] is not None:
                if np.any(z2a <= 0) and nk in ("ln", "bc"):
                    ok = False
                else:
                    z2a = norm_o[nk].normalize(z2a)
            if ok:
                z2 = np.array([z, z2a - ev(mean_o[mk])])
                g0, c0 = _est(pos, z2, edges, estimator=est)
                g, c = _est(pos, f2.copy(), edges, estimator=est, mean=mean_o[mk], trend=trend_o[tk], normalizer=norm_o[nk])
                r.true("preprocessing of stacked fields == per-field preprocessing", np.array_equal(c, c0) and np.allclose(g, g0, rtol=1e-10, atol=1e-12), info={"g": g.tolist(), "g0": g0.tolist()}, mean=mk, trend=tk, norm=nk, estimator=est, dim=dim)
    # the same callable mean / trend objects used for another point set of the same size (moved and re-ordered
    # points): preprocessing is evaluated at the points of *this* call
    pos2 = (pos[:, ::-1] + np.array([3.0, -1.5, 0.7])[:dim, None]).copy()
    f_2 = f[::-1].copy()
    for mk, tk in (("call", "none"), ("none", "call"), ("call", "call")):
        ev2 = lambda v: 0.0 if v is None else np.asarray(v(*pos2), dtype=float)
        _est(pos, f.copy(), edges, mean=mean_o[mk], trend=trend_o[tk])  # first use of the callables
        g0, c0 = _est(pos2, f_2 - ev2(trend_o[tk]) - ev2(mean_o[mk]), edges)
        g, c = _est(pos2, f_2.copy(), edges, mean=mean_o[mk], trend=trend_o[tk])
        r.true("second call with the same callable mean / trend on other points of the same number == estimate on the manually preprocessed field", np.array_equal(c, c0) and np.allclose(g, g0, rtol=1e-10, atol=1e-12), info={"g": g.tolist(), "g0": g0.tolist()}, mean=mk, trend=tk, dim=dim)
    # fit_normalizer returns the fitted normalizer and uses it
    nrm = gs.normalizer.BoxCox()
    out = gs.vario_estimate(pos, f.copy(), edges, normalizer=nrm, fit_normalizer=True)
    n2 = gs.normalizer.BoxCox()
    n2.fit(f)
    r.close("fit_normalizer: fitted parameter == Normalizer.fit on the data", out[2].lmbda, n2.lmbda, rtol=1e-8, dim=dim)
    g0, c0 = _est(pos, n2.normalize(f), edges)
    r.close("fit_normalizer: estimate uses the fitted normalizer", out[1], g0, rtol=1e-8, atol=1e-10, dim=dim)
    # normalizers given as classes: every call builds its own instance (history: fit on one data set, then
    # the same class for other data, with and without fitting)
    fb = (f[::-1] * 1.7 + 0.3).copy()
    for ncls in (gs.normalizer.BoxCox, gs.normalizer.YeoJohnson, gs.normalizer.Modulus):
        o1 = gs.vario_estimate(pos, f.copy(), edges, normalizer=ncls, fit_normalizer=True)
        ref = ncls()
        ref.fit(f)
        for k, v in ref.default_parameter.items():
            r.close("class normalizer + fit_normalizer: fitted parameter == Normalizer.fit on the data", getattr(o1[2], k), getattr(ref, k), rtol=1e-8, norm=ncls.__name__, dim=dim)
        g, c = _est(pos, fb.copy(), edges, normalizer=ncls)
        g0, c0 = _est(pos, ncls().normalize(fb), edges)
        r.true("class normalizer after an earlier fitted call == estimate with a default instance", np.array_equal(c, c0) and np.allclose(g, g0, rtol=1e-10, atol=1e-12), info={"g": np.asarray(g).tolist(), "g0": np.asarray(g0).tolist()}, norm=ncls.__name__, dim=dim)
        o2 = gs.vario_estimate(pos, fb.copy(), edges, normalizer=ncls, fit_normalizer=True)
        r.true("two fitted calls return independent normalizers", o2[2] is not o1[2], norm=ncls.__name__, dim=dim)
        for k in ref.default_parameter:
            r.close("normalizer returned by the first call unchanged by the second", getattr(o1[2], k), getattr(ref, k), rtol=1e-8, norm=ncls.__name__, dim=dim)
    return r.done(outcome=[dim] + idx)


GROUPS = {"dirlist": case_dirlist, "perm": case_perm, "rigid": case_rigid, "missing": case_missing, "struct": case_struct, "latlon": case_latlon, "stdbins": case_stdbins, "preproc": case_preproc}


def run(chk):
    tier, seed = chk.tier, chk.seed
    gen = generic_values(seed, 6, -3.0, 3.0, "C09ang")
    pc = []
    for dim, sizes in ((1, (3, 4, 5)), (2, (3, 4) if tier == "quick" else (3, 4, 5)), (3, (3,) if tier == "quick" else (3, 4))):
        npts = 3**dim
        for n in sizes:
            combs = list(itertools.combinations_with_replacement(range(npts), n))
            step = 1 if (tier != "quick" or len(combs) <= 200) else max(1, len(combs) // 200)
            for c in combs[::step]:
                pc.append({"dim": dim, "points": list(c)})
    chk.run("perm", case_perm, pc, rule="point multisets of the lattice {0,1,2}^d (n <= 5): all n! permutations, all 2^d d! lattice symmetries, integer translation, field offset and factors x 3 edge sets x both estimators x 1 and 2 fields (with NaN)", chunk=2)
    rc = [{"dim": c["dim"], "points": c["points"], "angles": [[gen[0], gen[1], gen[2]], [gen[3], gen[4], gen[5]], [math.pi / 2, 0.3, -1.0]]} for c in pc if len(set(c["points"])) >= 3][:: (1 if tier != "quick" else 2)]
    chk.run("rigid", case_rigid, rc, rule="generic rotations + translations (3 per seed) of lattice subsets with bin edges outside the guard band; directional estimates with co-rotated directions; angles= vs direction=", chunk=4, max_skip_frac=0.9)
    # (distinct points: a coincident pair under the separated search is the open finding of C08)
    dl = [c for c in pc if c["dim"] >= 2 and len(set(c["points"])) == len(c["points"]) >= 3][:: (1 if tier != "quick" else 3)]
    chk.run("dirlist", case_dirlist, dl, rule="lattice point subsets without coincident points (dim 2, 3) x angles_tol {pi/8, 50 deg (cones of orthogonal axes overlap), 1.2} x every ordered selection of 2-4 directions from {e_x, e_y, (e_z), diagonals}: per-direction estimate equals the single-direction estimate; quarter turn of the coordinates swaps the axis variograms", chunk=4, max_skip_frac=0.9)
    mc = [c for c in pc if 4 <= len(c["points"]) <= 5 or (c["dim"] == 1 and len(c["points"]) >= 3)][:: (1 if tier != "quick" else 2)]
    chk.run("missing", case_missing, mc, rule="every subset of <= 2 removed points vs mask= / masked array / NaN / no_data / union of explicit and array mask / mask + NaN; two stacked fields with every pair of missing positions (NaN stack, masked stack, list of masked arrays)", chunk=2)
    sc = [{"shape": list(s), "seed": sd} for s in ([(2,), (3,), (2, 2), (3, 2), (3, 3)] + ([(2, 2, 2), (3, 2, 2)] if tier != "quick" else [(2, 2, 2)])) for sd in range(3 if tier == "quick" else 8)]
    chk.run("struct", case_struct, sc, rule="all grids up to 3x3 (and 2x2x2): structured vs unstructured, stacked fields, masks; sampling_size k in {2,3,n-1,n,n+2} x sampling seeds vs RandomState(seed).choice(arange(n), k, replace=False)", chunk=2)
    lc = [{"points": list(c)} for k in (3, 4) for c in itertools.combinations(range(len(LL_PTS)), k)]
    chk.run("latlon", case_latlon, lc, rule="lat-lon point subsets (poles, date line, antipodes) x geo_scale {degree, km, 17.3, 0.01}: explicit and automatic bins scale with the unit, estimates do not; standard_bins rule on the sphere", chunk=4, max_skip_frac=0.7)
    bc_ = [{"dim": d, "n": n, "seed": s + 10 * seed} for d in (1, 2, 3) for n in (2, 3, 5, 8, 9, 16, 17, 33, 100) for s in range(2)]
    chk.run("stdbins", case_stdbins, bc_, rule="standard_bins rule (box diameter / 3, bin number, explicit bin_no / max_dist, structured axes) for dim 1-3 x point counts around powers of two", chunk=4)
    prc = [c for c in pc if len(c["points"]) >= 4][:: (3 if tier == "quick" else 1)]
    chk.run("preproc", case_preproc, prc, rule="mean {none,const,callable} x trend {none,const,callable} x normalizer {none, LogNormal, BoxCox, YeoJohnson} x estimator, single and stacked fields; fit_normalizer", chunk=2)
    chk.assume("rigid motions beyond the lattice symmetries are three generic rotations per seed with bin edges at least 1e-6 away from every pair distance")
    chk.assume("the number of standard bins is compared with the implemented variant of Sturges' rule ceil(2 log2 n + 1); the documentation only names the rule")
