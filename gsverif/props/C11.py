"""C11 - seeded field generation is deterministic and local.

(H) breadth-first search over call / re-seed / in-place edit histories on real SRF objects
    (gsverif.genhist) with a freshly constructed generator as differential oracle;
(I) complete enumeration of subsets / permutations / batch splits / mesh types of a point
    set: the value at a location must not depend on the request it is part of.
"""
import itertools
import warnings

import numpy as np

import gstools as gs

from .. import genhist
from ..core import R

LEVEL = "model_checking"
warnings.simplefilter("ignore")

SEED_VALUES = [0, 7, 255, 256, 257, 2**31 - 1, 19970221]


def _srf(case, seed):
    d = case["dim"]
    C = getattr(gs, case["cls"])
    kw = dict(dim=d, var=1.7, len_scale=2.5)
    if case["gen"] != "IncomprRandMeth" and d > 1:
        kw["anis"] = [0.5, 0.8][: d - 1]
        kw["angles"] = [0.6, 0.2, -0.3][: d * (d - 1) // 2]
    if case["cls"] == "Stable":
        kw["alpha"] = 1.2
    m = C(**kw)
    if case["gen"] == "Fourier":
        return gs.SRF(m, generator="Fourier", period=[9.0, 7.0, 5.0][:d], mode_no=[6, 4, 4][:d], seed=seed)
    if case["gen"] == "IncomprRandMeth":
        return gs.SRF(m, generator="IncomprRandMeth", mode_no=10, seed=seed, sampling=case.get("sampling", "auto"))
    return gs.SRF(m, mode_no=10, seed=seed, sampling=case.get("sampling", "auto"))


PTS = np.array([[0.3, 1.7, 4.1, 6.6, 2.2], [0.9, 2.2, 0.4, 5.3, 3.1], [1.1, 0.2, 3.3, 2.4, 4.0]])


def case_locality(case):
    r = R()
    d, seed = case["dim"], case["seed"]
    pts = PTS[:d] + np.array(case.get("offset", [0.0, 0.0, 0.0]))[:d, None]
    n = pts.shape[1]
    # rounding of the isometrised coordinates (1 ulp of the coordinate magnitude, BLAS kernels differ
    # with the batch shape) enters the phase k.x: tolerance scales with the coordinate magnitude
    ATOL = 1e-13 * (1.0 + 10.0 * float(np.abs(pts).max()))
    vec = case["gen"] == "IncomprRandMeth"
    srf = _srf(case, seed)
    full = np.array(srf(pts, seed=seed))  # (n,) or (d, n)
    col = lambda a, idx: a[..., idx]
    nsub = 0
    # every non-empty subset, in a fresh object and in the same object
    for k in range(1, n + 1):
        for idx in itertools.combinations(range(n), k):
            idx = list(idx)
            f1 = np.array(_srf(case, seed)(pts[:, idx]))
            r.close("value independent of which other points are requested (fresh object)", f1, col(full, idx), rtol=1e-12, atol=ATOL, subset=idx)
            f2 = np.array(srf(pts[:, idx]))
            r.close("value independent of which other points are requested (same object, seed kept)", f2, col(full, idx), rtol=1e-12, atol=ATOL, subset=idx)
            nsub += 1
    # every permutation of 4 points
    for perm in itertools.permutations(range(4)):
        perm = list(perm)
        f = np.array(srf(pts[:, perm], seed=seed))
        r.close("value independent of point order", f, col(full, perm), rtol=1e-12, atol=ATOL, perm=perm)
    # every split into two batches (ordered by mask)
    for mask in range(1, 2**n - 1):
        a = [i for i in range(n) if mask >> i & 1]
        b = [i for i in range(n) if not mask >> i & 1]
        s2 = _srf(case, seed)
        fa = np.array(s2(pts[:, a]))
        fb = np.array(s2(pts[:, b]))
        r.close("value independent of batching (first batch)", fa, col(full, a), rtol=1e-12, atol=ATOL, split=[a, b])
        r.close("value independent of batching (second batch)", fb, col(full, b), rtol=1e-12, atol=ATOL, split=[a, b])
    # structured grid == same points unstructured == meshio mesh points; store names
    off = np.array(case.get("offset", [0.0, 0.0, 0.0]))
    ax = [np.array([0.0, 1.5, 4.0]) + off[0], np.array([0.5, 2.5]) + off[1], np.array([1.0, 2.0, 3.5]) + off[2]][:d]
    g = np.meshgrid(*ax, indexing="ij")
    flat = np.array([x.ravel() for x in g])
    fs = np.array(srf.structured(ax, seed=seed))
    fu = np.array(srf.unstructured(flat, seed=seed))
    r.close("structured == unstructured on the same points", fs.reshape((d, -1)) if vec else fs.ravel(), fu, rtol=1e-12, atol=ATOL)
    fn = np.array(srf(flat, seed=seed, store="other_name"))
    r.close("storage name does not change the field", fn, fu, rtol=0, atol=0)
    r.close("stored field == returned field", np.array(srf["other_name"]), fn, rtol=0, atol=0)
    fx = np.array(srf(flat, seed=seed, store=False))
    r.close("store=False does not change the field", fx, fu, rtol=0, atol=0)
    if d >= 2:
        import meshio

        if d == 2:
            mp = np.column_stack([flat[0], flat[1], np.zeros(flat.shape[1])])
            cells = [("triangle", np.array([[0, 1, 2], [1, 2, 3], [2, 3, 4]]))]
            direction = "xy"
        else:
            mp = flat.T.copy()
            cells = [("tetra", np.array([[0, 1, 2, 3], [2, 3, 4, 5]]))]
            direction = "all"
        mesh = meshio.Mesh(mp, cells)
        fm = srf.mesh(mesh, points="points", direction=direction, seed=seed, name="fld")
        r.close("meshio mesh points == unstructured", np.array(fm), fu, rtol=1e-12, atol=ATOL)
        cen = np.array([mp[c].mean(axis=0) for c in cells[0][1]]).T[:d]
        fc = srf.mesh(mesh, points="centroids", direction=direction, seed=seed, name="fldc")
        fcu = np.array(_srf(case, seed)(cen))
        r.close("meshio mesh centroids == unstructured at the centroids", np.array(fc), fcu, rtol=1e-12, atol=ATOL)
        # several cell blocks of different types: every block's cell data belongs to its own centroids
        if d == 2:
            blocks = [("triangle", np.array([[0, 1, 2], [1, 2, 3]])), ("quad", np.array([[0, 1, 3, 4]])), ("line", np.array([[2, 4], [0, 3], [1, 4]]))]
        else:
            blocks = [("tetra", np.array([[0, 1, 2, 3]])), ("pyramid", np.array([[1, 2, 3, 4, 5]])), ("line", np.array([[0, 5], [2, 4]]))]
        mesh2 = meshio.Mesh(mp, blocks)
        srf.mesh(mesh2, points="centroids", direction=direction, seed=seed, name="fb")
        fresh = _srf(case, seed)
        for bi, (ctype, conn) in enumerate(blocks):
            cen = np.array([mp[c].mean(axis=0) for c in conn]).T[:d]
            r.close("meshio cell data of every cell block == unstructured at that block's centroids", np.array(mesh2.cell_data["fb"][bi]).T if vec else np.array(mesh2.cell_data["fb"][bi]), np.array(fresh(cen, seed=seed)), rtol=1e-12, atol=ATOL, block=ctype)
        srf.mesh(mesh2, points="points", direction=direction, seed=seed, name="fp")
        r.close("meshio point data == unstructured at the mesh points", np.array(mesh2.point_data["fp"]).T if vec else np.array(mesh2.point_data["fp"]), fu, rtol=1e-12, atol=ATOL)
        if d == 2:
            # 2-D field on a mesh lying in the x-z plane
            mp3 = np.column_stack([flat[0], np.full(flat.shape[1], 7.0), flat[1]])
            mesh3 = meshio.Mesh(mp3, blocks)
            srf.mesh(mesh3, points="centroids", direction="xz", seed=seed, name="fz")
            for bi, (ctype, conn) in enumerate(blocks):
                cen = np.array([mp3[c].mean(axis=0) for c in conn]).T[[0, 2]]
                r.close("meshio mesh in the x-z plane (direction='xz'): cell data == unstructured at (x, z) of the centroids", np.array(mesh3.cell_data["fz"][bi]).T if vec else np.array(mesh3.cell_data["fz"][bi]), np.array(fresh(cen, seed=seed)), rtol=1e-12, atol=ATOL, block=ctype)
        # direction strings in any axis order (and the equivalent index lists) select the coordinates in that order
        mpd = np.column_stack([flat[0] if d >= 1 else 0, (flat[1] if d >= 2 else flat[0]) + 0.37, (flat[2] if d >= 3 else flat[0] * 0.5 - 1.0)])[:, :3]
        meshd = meshio.Mesh(mpd, blocks)
        for dstr in (["yx", "zx", "zy", "xz"] if d == 2 else ["zyx", "yzx", "xzy"]):
            sel = ["xyz".index(c) for c in dstr]
            exp_pts = np.array(fresh(mpd.T[sel], seed=seed))
            got = srf.mesh(meshd, points="points", direction=dstr, seed=seed, name="fd")
            r.close("mesh(direction=<axis string in any order>) == unstructured at the coordinates in that order", np.array(got), exp_pts, rtol=1e-12, atol=ATOL, direction=dstr)
            got2 = srf.mesh(meshd, points="points", direction=sel, seed=seed, name="fd2")
            r.close("mesh(direction=<index list>) == unstructured at the coordinates in that order", np.array(got2), exp_pts, rtol=1e-12, atol=ATOL, direction=dstr)
    # seed value semantics: numpy integer / python int of the same value
    f_np = np.array(_srf(case, np.int64(seed))(pts))
    r.close("seed given as numpy integer == python int", f_np, full, rtol=0, atol=0)
    return r.done(outcome=[round(float(v), 10) for v in np.ravel(full)[:3]], sub={"subsets": nsub})


GROUPS = {"gen_bfs": genhist.case_hist, "locality": case_locality}


def hist_configs(tier):
    cfgs = []
    for nug in (0.0, 0.3):
        cfgs.append({"gen": "RandMeth", "cls": "Gaussian", "dim": 2, "nugget": nug})
        cfgs.append({"gen": "RandMeth", "cls": "Exponential", "dim": 1, "nugget": nug})
    cfgs.append({"gen": "RandMeth", "cls": "Stable", "dim": 2, "nugget": 0.0, "opt": {"alpha": 1.2}, "opt_ops": [("alpha", 1.7)], "mode_no": 6})
    cfgs.append({"gen": "IncomprRandMeth", "cls": "Gaussian", "dim": 2, "nugget": 0.0})
    cfgs.append({"gen": "Fourier", "cls": "Gaussian", "dim": 2, "nugget": 0.0, "mode_no": [4, 6]})
    cfgs.append({"gen": "Fourier", "cls": "Gaussian", "dim": 1, "nugget": 0.3, "mode_no": 8})
    if tier != "quick":
        cfgs.append({"gen": "RandMeth", "cls": "Exponential", "dim": 3, "nugget": 0.0})
        cfgs.append({"gen": "IncomprRandMeth", "cls": "Exponential", "dim": 3, "nugget": 0.3})
        cfgs.append({"gen": "Fourier", "cls": "Exponential", "dim": 3, "nugget": 0.0, "mode_no": [4, 2, 4]})
        cfgs.append({"gen": "RandMeth", "cls": "Matern", "dim": 2, "nugget": 0.0, "opt": {"nu": 1.5}, "opt_ops": [("nu", 0.7)]})
    return cfgs


def run(chk):
    depth = 3 if chk.tier == "quick" else 4
    chk.bfs(
        "gen_bfs",
        genhist.case_hist,
        hist_configs(chk.tier),
        lambda cfg: genhist.ops_for(cfg, chk.tier),
        depth,
        rule="BFS over histories of call(P|Q|grid, seed=S1|S2|kept) / in-place model edits and restorations (var, len_scale, anis, angles, optional argument) / model re-assignment (equal, different) / generator mode_no, seed, period, update(...) combinations on SRF objects with RandMeth, IncomprRandMeth and Fourier generators; after every generating call: equality with a freshly constructed SRF (nugget-free), identical output for identical vs equal-but-distinct seed objects, periodicity (Fourier)",
    )
    gens = [("RandMeth", c, d) for c in ["Gaussian", "Exponential", "Stable"] for d in (1, 2, 3)] + [("IncomprRandMeth", c, d) for c in ["Gaussian", "Exponential"] for d in (2, 3)] + [("Fourier", c, d) for c in ["Gaussian", "Exponential"] for d in (1, 2, 3)]
    seeds = SEED_VALUES if chk.tier != "quick" else [0, 256, 257, 2**31 - 1, 19970221 + chk.seed]
    if chk.tier == "quick":
        gens = [g for g in gens if not (g[1] == "Stable" and g[2] == 3)]
    cases = [{"gen": g, "cls": c, "dim": d, "seed": s, "offset": [0.0, 0.0, 0.0]} for (g, c, d) in gens for s in seeds]
    # forced sampling strategies (inversion through pdf + cdf where no ppf exists: dim 3; mcmc where a ppf exists)
    cases += [{"gen": g, "cls": c, "dim": d, "seed": s, "offset": [0.0, 0.0, 0.0], "sampling": sm} for g in ("RandMeth", "IncomprRandMeth") for c in ("Gaussian", "Exponential") for d in (2, 3) for sm in ("inversion", "mcmc") for s in seeds[:2] if not (g == "IncomprRandMeth" and d == 1)]
    # projected-coordinate magnitudes (UTM-like): spacing tiny relative to the coordinates
    cases += [{"gen": g, "cls": c, "dim": d, "seed": seeds[-1], "offset": [4.5e5, 5.6e6, 120.0]} for (g, c, d) in gens if g != "Fourier"]
    chk.run("locality", case_locality, cases, rule="generator x model x dim x seed (+ forced sampling strategies inversion / mcmc); per case all 31 non-empty subsets (fresh and same object), all 24 permutations of 4 points, all 30 two-batch splits of the 5-point set, structured vs unstructured vs meshio points/centroids, store names")
    chk.assume("histories up to the depth bound over the stated alphabet; models with a nugget are judged by seed-object independence and harness determinism only (their noise legitimately depends on the stream position), the fresh-object comparison runs on nugget-free models")
    chk.assume("in-place parameter changes smaller than the library's isclose() comparison tolerance (rtol 1e-5, atol 1e-8) are not in the alphabet")
