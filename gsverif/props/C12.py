"""C12 - anisotropy and rotation act as a linear change of coordinates.

Full product dim 1-4 x angle vectors (multiples of pi/2, generic) x anisotropy ratios x
position sets against explicit rotation matrices written from the documentation
(gsverif.oracles.geometry); pipelines (SRF, Krige, CondSRF) with an anisotropic rotated model
at x against the isotropic model at the oracle-transformed positions.
"""
import itertools
import math
import warnings

import numpy as np

import gstools as gs
from gstools.tools import geometric as gg

from ..core import R, generic_values
from ..oracles import geometry as og

LEVEL = "exploration"
warnings.simplefilter("ignore")


def case_matrix(case):
    r = R()
    d, ang, anis = case["dim"], case["angles"], case["anis"]
    extra = {"dim": d}
    Rm = og.rotation(d, ang)
    M = gg.matrix_rotate(d, ang)
    r.close("matrix_rotate == documented Givens composition", M, Rm, rtol=0, atol=1e-13, **extra)
    r.close("matrix_rotate orthogonal", M @ M.T, np.eye(d), rtol=0, atol=1e-13, **extra)
    r.close("det(matrix_rotate) == +1", np.linalg.det(M), 1.0, rtol=0, atol=1e-12, **extra)
    r.close("matrix_derotate == inverse rotation", gg.matrix_derotate(d, ang), Rm.T, rtol=0, atol=1e-13, **extra)
    r.close("rotated_main_axes rows == columns of the rotation", gg.rotated_main_axes(d, ang), Rm.T, rtol=0, atol=1e-13, **extra)
    s = np.array([1.0] + og.fill_anis(d, anis))
    r.close("matrix_isometrize == stretch^-1 . rotation^T", gg.matrix_isometrize(d, ang, anis), np.diag(1 / s) @ Rm.T, rtol=1e-13, atol=1e-13, **extra)
    r.close("matrix_anisometrize == rotation . stretch", gg.matrix_anisometrize(d, ang, anis), Rm @ np.diag(s), rtol=1e-13, atol=1e-13, **extra)
    r.close("isometrize . anisometrize == id", gg.matrix_isometrize(d, ang, anis) @ gg.matrix_anisometrize(d, ang, anis), np.eye(d), rtol=0, atol=1e-12, **extra)
    if d == 2:
        r.close("2-D: main axis 0 == (cos a, sin a) (counter-clockwise)", gg.rotated_main_axes(2, ang)[0], [math.cos(ang[0]), math.sin(ang[0])], rtol=0, atol=1e-14, **extra)
    if d == 3:
        r.close("3-D: == Rx(roll) Ry(pitch) Rz(yaw), right-handed", M, og.rot3_explicit(*ang[:3]), rtol=0, atol=1e-13, **extra)
    if d >= 3:
        # the first angles coincide with the lower dimension
        low = gg.matrix_rotate(d - 1, ang[: og.n_angles(d - 1)])
        emb = np.eye(d)
        emb[: d - 1, : d - 1] = low
        r.close("first angles coincide with the lower-dimensional rotation", gg.matrix_rotate(d, list(ang[: og.n_angles(d - 1)]) + [0.0] * (d - 1)), emb, rtol=0, atol=1e-13, **extra)
    return r.done(outcome=[round(float(v), 9) for v in M.ravel()[:4]])


def _model(case, iso=False):
    d = case["dim"]
    kw = dict(dim=d, var=1.6, len_scale=case.get("len_scale", 2.0))
    if not iso and d > 1:
        kw["anis"] = case["anis"]
        kw["angles"] = case["angles"]
    return getattr(gs, case.get("cls", "Exponential"))(**kw)


def case_model(case):
    r = R()
    d, ang, anis = case["dim"], case["angles"], case["anis"]
    extra = {"dim": d}
    m = _model(case)
    rng = np.random.RandomState(5)
    pos = np.concatenate([np.eye(d), rng.uniform(-3, 3, size=(d, 4))], axis=1)
    iso = og.isometrize(d, ang, anis, pos)
    r.close("model.isometrize == oracle transform", m.isometrize(pos), iso, rtol=1e-12, atol=1e-12, **extra)
    r.close("model.anisometrize(isometrize(x)) == x", m.anisometrize(m.isometrize(pos)), pos, rtol=1e-12, atol=1e-12, **extra)
    r.close("model.isometrize(anisometrize(y)) == y", m.isometrize(m.anisometrize(pos)), pos, rtol=1e-12, atol=1e-12, **extra)
    r.close("model.anisometrize == oracle transform", m.anisometrize(pos), og.anisometrize(d, ang, anis, pos), rtol=1e-12, atol=1e-12, **extra)
    Rm = og.rotation(d, ang)
    r.close("model.main_axes rows == columns of the rotation", m.main_axes(), Rm.T, rtol=0, atol=1e-13, **extra)
    fa = og.fill_anis(d, anis)
    r.close("len_scale_vec == len_scale * [1, anis]", m.len_scale_vec, np.array([1.0] + fa) * m.len_scale, rtol=1e-14, **extra)
    r.close("anis attribute filled as documented", m.anis, fa, rtol=1e-14, **extra)
    t = np.array([0.3, 1.0, 2.2])
    for i in range(d):
        sc = 1.0 if i == 0 else fa[i - 1]
        p = Rm[:, i][:, None] * (m.len_scale * sc * t)[None, :]
        r.close("along main axis i the model has length scale len_scale*anis_i", m.cov_spatial(p), m.covariance(m.len_scale * t), rtol=1e-11, atol=1e-13, axis=i, **extra)
    r.close("cov_spatial(x) == covariance(|oracle transform x|)", m.cov_spatial(pos), m.covariance(np.linalg.norm(iso, axis=0)), rtol=1e-11, atol=1e-13, **extra)
    # the same position array used again (float64, C-contiguous: the layout that can be aliased)
    pa = np.ascontiguousarray(pos, dtype=np.double)
    keep = pa.copy()
    for fname in ("vario_spatial", "cov_spatial", "cor_spatial"):
        first = np.array(getattr(m, fname)(pa))
        again = np.array(getattr(m, fname)(pa))
        r.close(f"{fname}: second evaluation on the same position array == first", again, first, rtol=0, atol=0, **extra)
    r.close("spatial functions leave the position array unchanged", pa, keep, rtol=0, atol=0, **extra)
    r.close("isometrize of the position array after the spatial functions == oracle transform", m.isometrize(pa), iso, rtol=1e-12, atol=1e-12, **extra)
    # list of length scales defines the anisotropy
    ls = [2.0] + [2.0 * a for a in fa]
    m2 = getattr(gs, case.get("cls", "Exponential"))(dim=d, var=1.6, len_scale=ls, angles=ang if d > 1 else 0.0)
    r.close("len_scale list == len_scale + anis ratios", [m2.len_scale] + list(m2.anis), [2.0] + fa, rtol=1e-14, **extra)
    r.true("model from len_scale list == model from anis", bool(m2 == m) if case.get("len_scale", 2.0) == 2.0 else True, **extra)
    return r.done(outcome=[round(float(v), 9) for v in iso.ravel()[:4]])


def case_pipeline(case):
    r = R()
    d, ang, anis = case["dim"], case["angles"], case["anis"]
    extra = {"dim": d, "pipe": case["pipe"]}
    mA, mI = _model(case), _model(case, iso=True)
    rng = np.random.RandomState(2)
    x = rng.uniform(0, 6, size=(d, 7))
    Tx = og.isometrize(d, ang, anis, x)
    cp = rng.uniform(0, 6, size=(d, 5))
    cv = np.array([0.4, 1.2, -0.3, 0.9, 2.1])
    Tcp = og.isometrize(d, ang, anis, cp)
    pipe = case["pipe"]
    if pipe == "SRF":
        a = gs.SRF(mA, seed=13, mode_no=24)(x)
        b = gs.SRF(mI, seed=13, mode_no=24)(Tx)
        r.close("SRF(anisotropic rotated model)(x) == SRF(isotropic model)(T x)", a, b, rtol=1e-10, atol=1e-11, **extra)
        ax = [np.array([0.0, 1.0, 2.5]), np.array([0.5, 2.0]), np.array([1.0, 3.0]), np.array([0.0, 1.0])][:d]
        g = np.array([v.ravel() for v in np.meshgrid(*ax, indexing="ij")])
        a = gs.SRF(mA, seed=13, mode_no=24).structured(ax)
        b = gs.SRF(mI, seed=13, mode_no=24)(og.isometrize(d, ang, anis, g)).reshape(a.shape)
        r.close("structured SRF == isotropic model at transformed grid points", a, b, rtol=1e-10, atol=1e-11, **extra)
    elif pipe in ("Simple", "Ordinary"):
        K = getattr(gs.krige, pipe)
        kw = {"mean": 0.7} if pipe == "Simple" else {}
        fa, va = K(mA, cp, cv, **kw)(x)
        fb, vb = K(mI, Tcp, cv, **kw)(Tx)
        r.close("kriging field: anisotropic model at x == isotropic model at T x", fa, fb, rtol=1e-8, atol=1e-9, **extra)
        r.close("kriging variance: anisotropic model at x == isotropic model at T x", va, vb, rtol=1e-8, atol=1e-9, **extra)
    elif pipe == "Universal":
        # drift functions live in field coordinates: for the isotropic twin they are composed with the inverse transform
        fns = [lambda *p: 1.0 * p[0], lambda *p: p[-1] * p[-1] + 0.5 * p[0]]
        back = lambda *q: og.anisometrize(d, ang, anis, np.array([np.ravel(c) for c in q]))
        gns = [lambda *q: fns[0](*back(*q)), lambda *q: fns[1](*back(*q))]
        fa, va = gs.krige.Universal(mA, cp, cv, fns)(x)
        fb, vb = gs.krige.Universal(mI, Tcp, cv, gns)(Tx)
        r.close("universal kriging field: anisotropic model with drift f at x == isotropic model with drift f o T^-1 at T x", fa, fb, rtol=1e-7, atol=1e-8, **extra)
        r.close("universal kriging variance: anisotropic model with drift f at x == isotropic model with drift f o T^-1 at T x", va, vb, rtol=1e-7, atol=1e-8, **extra)
        fc_, vc_ = gs.krige.Universal(mA, cp, cv, fns)(x, chunk_size=3)
        r.close("universal kriging with drift functions independent of chunk_size", fc_, fa, rtol=1e-10, atol=1e-12, **extra)
    elif pipe == "CondSRF":
        ka = gs.krige.Ordinary(mA, cp, cv)
        kb = gs.krige.Ordinary(mI, Tcp, cv)
        a = gs.CondSRF(ka, seed=13, mode_no=24)(x)
        b = gs.CondSRF(kb, seed=13, mode_no=24)(Tx)
        r.close("CondSRF: anisotropic model at x == isotropic model at T x", a, b, rtol=1e-8, atol=1e-9, **extra)
    elif pipe == "Fourier":
        per = [12.0, 9.0, 7.0, 5.0][:d]
        a = gs.SRF(mA, generator="Fourier", period=per, mode_no=[4] * d, seed=13)(x)
        # Fourier modes are laid out per main axis with delta_k = 2 pi / period * [1, anis]: in
        # isotropic coordinates the period along axis i is period_i / anis_i
        fa_ = og.fill_anis(d, anis)
        b = gs.SRF(mI, generator="Fourier", period=[per[i] / ([1.0] + fa_)[i] for i in range(d)], mode_no=[4] * d, seed=13)(Tx)
        r.close("Fourier SRF: anisotropic model at x == isotropic model (period/anis) at T x", a, b, rtol=1e-9, atol=1e-10, **extra)
    return r.done(outcome=case["pipe"] + str(d))


def case_history(case):
    """the transform belongs to the present anis / angles: a model used with one setting and then
    changed in place equals the model constructed with the new setting"""
    r = R()
    d = case["dim"]
    a0, a1 = case["from"], case["to"]
    extra = {"dim": d, "order": case["order"]}
    m = _model({"dim": d, "angles": a0["angles"], "anis": a0["anis"], "cls": case["cls"]})
    rng = np.random.RandomState(5)
    pos = np.concatenate([np.eye(d), rng.uniform(-3, 3, size=(d, 4))], axis=1)
    x = rng.uniform(0, 6, size=(d, 5))
    # warm: everything that could be cached for the old setting
    m.isometrize(pos), m.anisometrize(pos), m.main_axes(), m.cov_spatial(pos)
    srf = gs.SRF(m, seed=13, mode_no=16)
    srf(x)
    kr_ = gs.krige.Simple(m, x[:, :3], [0.3, 1.1, -0.4], mean=0.2)
    kr_(x)
    fkw = dict(generator="Fourier", period=[9.0, 7.0, 11.0][:d], mode_no=[6, 4, 4][:d], seed=13)
    srf_f = gs.SRF(m, **fkw)
    srf_f(x)
    if case["order"] == "angles_first":
        m.angles = a1["angles"]
        m.anis = a1["anis"]
    elif case["order"] == "anis_first":
        m.anis = a1["anis"]
        m.angles = a1["angles"]
    elif case["order"] == "len_list":
        m.angles = a1["angles"]
        m.len_scale = [2.0] + [2.0 * a for a in og.fill_anis(d, a1["anis"])]
    else:  # set_len_anis style assignment through len_scale scalar + anis afterwards, then angles twice
        m.angles = a0["angles"]
        m.len_scale = 2.0
        m.anis = a1["anis"]
        m.angles = a1["angles"]
    ang, anis = a1["angles"], a1["anis"]
    fresh = _model({"dim": d, "angles": ang, "anis": anis, "cls": case["cls"]})
    r.true("changed model == model constructed with the new setting", m == fresh, **extra)
    iso = og.isometrize(d, ang, anis, pos)
    r.close("after in-place change: isometrize == oracle transform of the new setting", m.isometrize(pos), iso, rtol=1e-12, atol=1e-12, **extra)
    r.close("after in-place change: anisometrize == oracle transform of the new setting", m.anisometrize(pos), og.anisometrize(d, ang, anis, pos), rtol=1e-12, atol=1e-12, **extra)
    r.close("after in-place change: main_axes rows == columns of the new rotation", m.main_axes(), og.rotation(d, ang).T, rtol=0, atol=1e-13, **extra)
    r.close("after in-place change: cov_spatial(x) == covariance(|oracle transform x|)", m.cov_spatial(pos), m.covariance(np.linalg.norm(iso, axis=0)), rtol=1e-11, atol=1e-13, **extra)
    mI = _model({"dim": d, "cls": case["cls"]}, iso=True)
    Tx = og.isometrize(d, ang, anis, x)
    srf.model = m  # documented way to make the generator follow the model
    r.close("after in-place change + model re-assignment: SRF(x) == SRF(isotropic model)(T x)", srf(x, seed=13), gs.SRF(mI, seed=13, mode_no=16)(Tx), rtol=1e-10, atol=1e-11, **extra)
    r.close("after in-place change: Fourier SRF(x) == Fourier SRF built from the changed model", srf_f(x, seed=13), gs.SRF(m, **fkw)(x), rtol=1e-10, atol=1e-11, **extra)
    r.close("after in-place change: Fourier SRF(x) == Fourier SRF of the model constructed with the new setting", srf_f(x, seed=13), gs.SRF(fresh, **fkw)(x), rtol=1e-10, atol=1e-11, **extra)
    kr_.set_condition()  # documented refresh
    fb, vb = gs.krige.Simple(mI, og.isometrize(d, ang, anis, x[:, :3]), [0.3, 1.1, -0.4], mean=0.2)(Tx)
    fa, va = kr_(x)
    r.close("after in-place change + refresh: kriging at x == isotropic model at T x (field)", fa, fb, rtol=1e-8, atol=1e-9, **extra)
    r.close("after in-place change + refresh: kriging at x == isotropic model at T x (variance)", va, vb, rtol=1e-8, atol=1e-9, **extra)
    return r.done(outcome=[round(float(v), 9) for v in iso.ravel()[:4]])


def case_temporal(case):
    """space-time (metric) models: rotation acts on the spatial axes only - angles given through the constructor or
    through the setter (also more angles than spatial rotations); the time axis is only scaled by its ratio"""
    r = R()
    sd, ang, route = case["sdim"], case["angles"], case["route"]
    anis = [0.5, 1.4, 0.7][: sd - 1] + [2.0]
    if route == "init":
        m = gs.Gaussian(temporal=True, spatial_dim=sd, len_scale=2.0, anis=anis, angles=ang)
    else:
        m = gs.Gaussian(temporal=True, spatial_dim=sd, len_scale=2.0, anis=anis)
        m.isometrize(np.ones((sd + 1, 2)))
        m.angles = ang
    extra = {"sdim": sd, "route": route, "nangles": len(np.atleast_1d(ang))}
    ns = og.n_angles(sd)
    sang = list(np.atleast_1d(ang))[:ns] + [0.0] * max(0, ns - len(np.atleast_1d(ang)))
    rng = np.random.RandomState(4)
    pos = rng.uniform(-3, 3, size=(sd + 1, 5))
    exp_sp = og.isometrize(sd, sang, anis[: sd - 1], pos[:sd]) if sd > 1 else pos[:sd]
    exp = np.vstack([exp_sp, pos[sd:] / anis[-1]])
    r.close("space-time isometrize == spatial rotation / stretching and time / time-ratio", m.isometrize(pos), exp, rtol=1e-12, atol=1e-12, **extra)
    A = np.array(m.main_axes())
    r.close("last main axis is the time axis", A[-1], np.eye(sd + 1)[-1], rtol=0, atol=1e-13, **extra)
    r.close("time components of the spatial main axes are zero", A[:-1, -1], np.zeros(sd), rtol=0, atol=1e-13, **extra)
    t = np.array([0.5, 1.0, 3.0])
    lag = np.zeros((sd + 1, 3))
    lag[-1] = t
    r.close("pure time lags have the length scale len_scale * time ratio", m.cov_spatial(lag), m.covariance(t / anis[-1]), rtol=1e-12, atol=1e-14, **extra)
    return r.done(outcome=[sd, route, len(np.atleast_1d(ang))])


GROUPS = {"temporal": case_temporal, "matrix": case_matrix, "model": case_model, "pipeline": case_pipeline, "history": case_history}


def angle_sets(dim, seed, tier):
    g = generic_values(seed, 2, -3.0, 3.0, "C12ang")
    vals = [0.0, math.pi / 2, -math.pi / 2, math.pi, math.pi / 6, 1.0, 2.5] + g
    n = og.n_angles(dim)
    if dim == 1:
        return [[]]
    if n <= 3:
        return [list(t) for t in itertools.product(vals, repeat=n)]
    nz = [math.pi / 2, 1.0, -0.7, g[0]]
    out = [[0.0] * n]
    for k in (1, 2, 3):
        for idx in itertools.combinations(range(n), k):
            for t in itertools.product(nz, repeat=k):
                a = [0.0] * n
                for i, v in zip(idx, t):
                    a[i] = v
                out.append(a)
    return out


def anis_sets(dim, tier):
    if dim == 1:
        return [[]]
    if dim <= 3:
        return [list(t) for t in itertools.product([1.0, 0.5, 0.1, 3.0], repeat=dim - 1)]
    return [[1.0, 1.0, 1.0], [0.5, 0.1, 3.0], [3.0, 1.0, 0.5]]


def run(chk):
    tier, seed = chk.tier, chk.seed
    mcases, modcases, pcases = [], [], []
    for d in (1, 2, 3, 4):
        A = angle_sets(d, seed, tier)
        for ang in A:
            for anis in anis_sets(d, tier)[:: (1 if d < 3 or tier != "quick" else 3)]:
                mcases.append({"dim": d, "angles": ang, "anis": anis})
        step = 1 if tier != "quick" else (7 if d == 3 else (11 if d == 4 else 1))
        for ang in A[::step]:
            for anis in anis_sets(d, tier):
                modcases.append({"dim": d, "angles": ang, "anis": anis, "cls": "Exponential"})
    for d in (1, 2, 3, 4):
        A = angle_sets(d, seed, tier)
        sel = A[:: max(1, len(A) // (6 if tier == "quick" else 40))]
        for ang in sel:
            for anis in anis_sets(d, tier)[:: (1 if d == 2 else 5 if d == 3 else 1)]:
                for pipe in ["SRF", "Simple", "Ordinary", "Universal", "CondSRF"] + (["Fourier"] if d <= 3 else []):
                    for cls in ["Exponential", "Gaussian"]:
                        if d == 4 and cls == "Gaussian":
                            continue
                        pcases.append({"dim": d, "angles": ang, "anis": anis, "pipe": pipe, "cls": cls, "len_scale": 2.0 if cls == "Exponential" else 1.2})
    chk.run("matrix", case_matrix, mcases, rule="dim 1-4 x all angle tuples from {0, +-pi/2, pi, pi/6, 1, 2.5, generic}^m (m=1,3; dim 4: all tuples with <= 3 non-zero of 6 angles) x anisotropy from {1, .5, .1, 3}^(d-1): rotation / stretching matrices against the documented Givens recipe", chunk=200)
    chk.run("model", case_model, modcases, rule="CovModel.isometrize / anisometrize / main_axes / len_scale_vec / cov_spatial along rotated main axes, len_scale list forms", chunk=50)
    chk.run("pipeline", case_pipeline, pcases, rule="SRF (unstructured, structured), Fourier SRF, Simple / Ordinary / Universal kriging (drift functions composed with the inverse transform), CondSRF: anisotropic rotated model at x vs isotropic model at the oracle-transformed positions (same seed)")
    hcases = []
    for d in (2, 3, 4):
        n = og.n_angles(d)
        settings = [
            {"angles": [0.0] * n, "anis": [1.0] * (d - 1)},
            {"angles": [0.6, -0.4, 1.1, 0.3, -0.9, 0.5][:n], "anis": [0.5, 3.0, 0.1][: d - 1]},
            {"angles": [math.pi / 2, 0.0, 1.0, 0.0, 0.0, -0.7][:n], "anis": [1.0] * (d - 1)},
            {"angles": [0.0] * n, "anis": [3.0, 0.5, 2.0][: d - 1]},
        ]
        for a0, a1 in itertools.permutations(settings, 2):
            for order in ("angles_first", "anis_first", "len_list", "mixed"):
                for cls in (["Exponential"] if tier == "quick" else ["Exponential", "Gaussian", "Spherical"]):
                    if cls == "Spherical" and d == 4:
                        continue
                    hcases.append({"dim": d, "from": a0, "to": a1, "order": order, "cls": cls})
    tc = [{"sdim": sd, "angles": a, "route": rt} for sd in (1, 2, 3) for rt in ("init", "setter") for a in ([0.6], [0.6, 0.3], [0.3, 0.4, 0.2], [0.6, 0.3, -0.4, 0.2, 0.1, 0.5], [0.0, 0.0, 0.9])]
    chk.run("temporal", case_temporal, tc, rule="space-time models, spatial_dim 1-3 x angle vectors of every length (incl. more angles than spatial rotations) x {constructor, angles setter}: isometrize, main axes, pure time lags", chunk=8)
    chk.run("history", case_history, hcases, rule="dim 2-4 x every ordered pair of settings from {isotropic, generic anisotropic+rotated, rotated only, anisotropic only} x order of the in-place assignments {angles then anis, anis then angles, angles + len_scale list, mixed}: the model is used (transforms, SRF, kriging) under the first setting and changed in place; transforms, covariance, SRF (after model re-assignment) and kriging (after set_condition) follow the new setting", chunk=8)
    chk.assume("angles and ratios are finite alphabets (all multiples of pi/2 up to pi, three generic values, seed-selected generic values); universal kriging enters the pipeline equivalence with drift functions that are composed with the inverse transform for the isotropic twin (they are evaluated in field coordinates by design)")
