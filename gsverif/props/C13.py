"""C13 - geographic and spatio-temporal coordinates are consistent across modules.

Full product over a lat-lon alphabet containing both poles, the date line, antipodes and
longitudes outside [-180, 180], geo_scale {radian, degree, km, arbitrary}, temporal on/off with
time anisotropy, against spherical trigonometry written here (gsverif.oracles.geometry): the
sphere embedding, its inverse, chordal <-> great-circle, the covariance actually used by
Krige / SRF / CondSRF, the estimator's distances, fitting at great-circle lags, standard
bins, rotation invariance of kriging on the sphere, and the space/time decoupling of
spatio-temporal models (angles, anisotropy, pipelines).
"""
import itertools
import math
import warnings

import numpy as np

import gstools as gs
from gstools.tools import geometric as gg

from .. import krigref as kr
from ..core import R, generic_values
from ..oracles import geometry as og
from ..oracles import variogram as ov

LEVEL = "exploration"
warnings.simplefilter("ignore")

LATS = [-90.0, -45.0, 0.0, 30.0, 90.0]
LONS = [-180.0, -90.0, 0.0, 179.999, 180.0, 270.0, 540.0]
SCALES = {"rad": 1.0, "deg": gs.DEGREE_SCALE, "km": gs.KM_SCALE, "arb": 17.3}


def _model(cls, gsc, temporal=False, t_anis=1.0, **kw):
    opts = {"Matern": {"nu": 1.5}, "Stable": {"alpha": 1.4}, "TPLGaussian": {"hurst": 0.4}, "TPLExponential": {"hurst": 0.4, "len_low": 0.1}}.get(cls, {})
    extra = {}
    if temporal:
        extra.update(temporal=True, anis=[1.0, 1.0, t_anis])
    return getattr(gs, cls)(latlon=True, var=1.7, len_scale=0.9 * gsc, geo_scale=gsc, **opts, **extra, **kw)


def case_embed(case):
    r = R()
    gsc, temporal, ta = SCALES[case["scale"]], case["temporal"], case["t_anis"]
    m = _model("Exponential", gsc, temporal, ta)
    pts = list(itertools.product(LATS, LONS))
    lat = np.array([p[0] for p in pts])
    lon = np.array([p[1] for p in pts])
    t = np.linspace(-2.0, 5.0, lat.size)
    pos = np.array([lat, lon, t]) if temporal else np.array([lat, lon])
    extra = {"scale": case["scale"], "temporal": temporal}
    iso = m.isometrize(pos)
    xyz = og.latlon2xyz(lat, lon, gsc)
    r.eq("isometrized lat-lon positions have 3 (+1) components", iso.shape, (3 + int(temporal), lat.size), **extra)
    r.close("positions map onto the sphere of radius geo_scale (spherical trigonometry)", iso[:3], xyz, rtol=1e-12, atol=1e-12 * gsc, **extra)
    r.close("|x| == geo_scale", np.linalg.norm(iso[:3], axis=0), np.full(lat.size, gsc), rtol=1e-12, **extra)
    if temporal:
        r.close("time axis appended, scaled only by the last anisotropy ratio", iso[3], t / ta, rtol=1e-13, atol=1e-15, **extra)
        iso2 = m.isometrize(np.array([lat, lon, t + 3.25]))
        r.close("a time shift changes only the last coordinate", iso2[:3], iso[:3], rtol=0, atol=0, **extra)
        r.close("a time shift moves the last coordinate by dt / anis_t", iso2[3] - iso[3], np.full(lat.size, 3.25 / ta), rtol=1e-10, atol=1e-12, **extra)
    back = m.anisometrize(iso)
    r.close("anisometrize(isometrize): latitude recovered", back[0], lat, rtol=0, atol=1e-6 if case["scale"] == "km" else 1e-9, **extra)
    notpole = np.abs(np.abs(lat) - 90.0) > 1e-9
    dl = (back[1] - lon + 180.0) % 360.0 - 180.0
    r.close("anisometrize(isometrize): longitude recovered modulo 360 (away from the poles)", dl[notpole], 0.0 * dl[notpole], rtol=0, atol=1e-9, **extra)
    if temporal:
        r.close("anisometrize(isometrize): time recovered", back[2], t, rtol=1e-12, atol=1e-13, **extra)
    again = m.isometrize(back)
    r.close("isometrize(anisometrize(isometrize(x))) == isometrize(x) (also at the poles)", again, iso, rtol=1e-9, atol=1e-9 * gsc, **extra)
    # chordal <-> great circle
    z = np.linspace(0.0, math.pi, 13) * gsc
    ch = gg.great_circle_to_chordal(z, gsc)
    r.close("great_circle_to_chordal == 2 R sin(zeta / 2R)", ch, 2 * gsc * np.sin(z / gsc / 2), rtol=1e-13, atol=1e-15 * gsc, **extra)
    r.close("chordal_to_great_circle inverts great_circle_to_chordal on [0, pi R]", gg.chordal_to_great_circle(ch, gsc), z, rtol=1e-9, atol=1e-9 * gsc, **extra)
    # standard bins on the sphere: one third of the great-circle distance that belongs to the
    # bounding-box diameter of the embedded points, in units of geo_scale
    for sel in ([3, 9, 17, 22], [0, 5, 11], list(range(0, lat.size, 4))):
        sub = np.array([lat[sel], lon[sel]])
        sb = gs.variogram.standard_bins(sub, latlon=True, geo_scale=gsc)
        xs = og.latlon2xyz(sub[0], sub[1], 1.0)
        diam = np.linalg.norm(xs.max(axis=1) - xs.min(axis=1))
        gc = 2 * math.asin(min(diam / 2, 1.0))
        r.close("standard_bins(latlon): 0 ... great-circle(box diameter)/3 in units of geo_scale", [sb[0], sb[-1]], [0.0, gc / 3 * gsc], rtol=1e-10, atol=1e-14, **extra)
        r.close("standard_bins(latlon, geo_scale=s) == s * standard_bins(radians)", sb, gs.variogram.standard_bins(sub, latlon=True) * gsc, rtol=1e-12, **extra)
        bc = gs.vario_estimate(sub, np.arange(len(sel)) * 1.0, latlon=True, geo_scale=gsc)[0]
        r.close("vario_estimate(latlon) automatic bin centres follow the standard bins", bc, (sb[1:] + sb[:-1]) / 2, rtol=1e-12, **extra)
    # model attributes: dim forced, space isotropic, no rotation
    r.eq("lat-lon model: dim forced to 3 (+1)", m.dim, 3 + int(temporal), **extra)
    r.eq("lat-lon model: field_dim 2 (+1)", m.field_dim, 2 + int(temporal), **extra)
    m2 = getattr(gs, "Exponential")(latlon=True, temporal=temporal, len_scale=[2.0, 1.0, 3.0, 4.0], angles=[0.5, 0.2, 0.1, 0.3, 0.2, 0.4], anis=[0.3, 0.2, 0.6], geo_scale=gsc)
    r.close("lat-lon model: spatial anisotropy forced to 1", m2.anis[:2], [1.0, 1.0], rtol=0, atol=0, **extra)
    r.close("lat-lon model: angles forced to 0", m2.angles, np.zeros_like(m2.angles), rtol=0, atol=0, **extra)
    if temporal:
        r.close("lat-lon + time: list of length scales sets the time anisotropy", m2.anis[2], 4.0 / 2.0, rtol=1e-14, **extra)
    if temporal:
        # history on the used model: scalar assignments keep the time anisotropy, a length-scale list sets it
        L = float(m.len_scale)
        for step, (attr, val) in enumerate([("len_scale", 0.9 * L), ("var", 2.0), ("len_scale", 1.3 * L), ("nugget", 0.1)]):
            setattr(m, attr, val)
            r.eq("lat-lon + time after a scalar assignment: three ratios", len(m.anis), 3, step=step, **extra)
            r.close("lat-lon + time after a scalar assignment: time axis still scaled by the time anisotropy", m.isometrize(pos)[3], t / ta, rtol=1e-13, atol=1e-15, step=step, **extra)
            r.close("lat-lon + time after a scalar assignment: sphere part unchanged", m.isometrize(pos)[:3], xyz, rtol=1e-12, atol=1e-12 * gsc, step=step, **extra)
        m.len_scale = [L, L, L, L * 0.4]
        r.close("lat-lon + time: length-scale list assigned in place sets the time anisotropy", m.isometrize(pos)[3], t / 0.4, rtol=1e-12, atol=1e-15, **extra)
        m.len_scale = 2.0 * L
        r.close("lat-lon + time: scalar assignment after the list keeps the new time anisotropy", m.isometrize(pos)[3], t / 0.4, rtol=1e-12, atol=1e-15, **extra)
    return r.done(outcome=[case["scale"], temporal, ta])


def case_cov(case):
    """covariance actually used by kriging / SRF between lat-lon points == Yadrenko covariance"""
    r = R()
    gsc, cls = SCALES[case["scale"]], case["cls"]
    (la1, lo1), (la2, lo2) = case["p1"], case["p2"]
    m = _model(cls, gsc)
    extra = {"scale": case["scale"], "cls": cls}
    zeta = float(og.great_circle(la1, lo1, la2, lo2))  # radians
    cy = float(m.cov_yadrenko(zeta * gsc))
    # chordal distance from spherical trigonometry and the model's isotropic covariance
    r.close("cov_yadrenko(great-circle) == covariance(chord)", cy, float(m.covariance(2 * gsc * math.sin(zeta / 2))), rtol=1e-10, atol=1e-13, **extra)
    # simple kriging with one conditioning point: estimate at p2 = weight * value, weight = C(p1,p2)/C(0)
    k = gs.krige.Simple(m, [[la1], [lo1]], [1.0], mean=0.0)
    f, v = k([[la2], [lo2]])
    r.close("covariance used by Krige between two lat-lon points == Yadrenko covariance", float(f[0]) * m.var, cy, rtol=1e-9, atol=1e-12, **extra)
    r.close("kriging variance from one lat-lon point == var - C^2/var", float(v[0]), m.var - cy**2 / m.var, rtol=1e-9, atol=1e-12, **extra)
    # SRF: exact conditional covariance of the randomization method between the two points
    srf = gs.SRF(m, seed=3, mode_no=16)
    g = srf.generator
    srf([[la1, la2], [lo1, lo2]])
    x = og.latlon2xyz(np.array([la1, la2]), np.array([lo1, lo2]), gsc)
    ph = g._cov_sample.T @ x
    u = math.sqrt(m.var / g.mode_no) * (g._z_1 @ np.cos(ph) + g._z_2 @ np.sin(ph))
    r.close("SRF on lat-lon points == mode sum evaluated at the sphere embedding", np.asarray(srf.field), u, rtol=1e-10, atol=1e-12, **extra)
    return r.done(outcome=[round(zeta, 9)])


def _rot_latlon(lat, lon, Rm):
    xyz = og.latlon2xyz(lat, lon, 1.0)
    y = Rm @ xyz
    return np.rad2deg(np.arcsin(np.clip(y[2], -1, 1))), np.rad2deg(np.arctan2(y[1], y[0]))


def case_sphere_rot(case):
    """kriging (and the estimator) of lat-lon data is invariant under rotations of the sphere"""
    r = R()
    gsc, cls, variant = SCALES[case["scale"]], case["cls"], case["variant"]
    m = _model(cls, gsc)
    extra = {"scale": case["scale"], "cls": cls, "variant": variant}
    clat = np.array([0.0, 0.0, 45.0, -30.0, 60.0, 10.0])
    clon = np.array([0.0, 90.0, 30.0, 150.0, -100.0, -20.0])
    cv = np.array([0.4, 1.3, -0.6, 2.0, 0.9, 1.1])
    tlat = np.array([10.0, -60.0, 85.0, 0.0, 33.0])
    tlon = np.array([10.0, 170.0, -40.0, 180.0, 75.0])
    K = getattr(gs.krige, variant)
    kw = {"mean": 0.5} if variant == "Simple" else {}
    f0, v0 = K(m, [clat, clon], cv, **kw)([tlat, tlon])
    rots = []
    # the 24 rotations of the cube (signed permutation matrices with det +1) and generic ones
    for perm in itertools.permutations(range(3)):
        for signs in itertools.product([1, -1], repeat=3):
            M = np.zeros((3, 3))
            for i, (p, s) in enumerate(zip(perm, signs)):
                M[i, p] = s
            if np.linalg.det(M) > 0:
                rots.append(M)
    for ang in case["angles"]:
        rots.append(og.rot3_explicit(*ang))
    for M in rots:
        a, b = _rot_latlon(clat, clon, M)
        c, d = _rot_latlon(tlat, tlon, M)
        f, v = K(m, [a, b], cv, **kw)([c, d])
        r.close("kriging of lat-lon data invariant under rotations of the sphere (field)", f, f0, rtol=1e-7, atol=1e-8, **extra)
        r.close("kriging of lat-lon data invariant under rotations of the sphere (variance)", v, v0, rtol=1e-7, atol=1e-8, **extra)
    # variogram estimator: same counts / values after rotation (bins away from the pair distances)
    dist = ov.great_circle(np.array([clat, clon]))
    edges = np.array([0.0, 0.6, 1.15, 1.75, 2.35, 3.2])
    if not np.any(np.abs(dist[:, None] - edges[None, :]) < 1e-6):
        be = edges * gsc  # one array in the unit of geo_scale, used by all following estimations
        g0 = gs.vario_estimate([clat, clon], cv, be, latlon=True, geo_scale=gsc, return_counts=True)
        exp, cnt = ov.unstructured(cv[None, :], edges, dist, "m")
        r.true("estimator's great-circle distances agree with spherical trigonometry", np.array_equal(g0[2], cnt) and np.allclose(g0[1], exp, rtol=1e-12, atol=1e-14), info={"g": g0[1].tolist(), "exp": exp.tolist()}, **extra)
        for M in rots[::5]:
            a, b = _rot_latlon(clat, clon, M)
            g1 = gs.vario_estimate([a, b], cv, be, latlon=True, geo_scale=gsc, return_counts=True)
            r.true("lat-lon variogram invariant under rotations of the sphere", np.array_equal(g1[2], g0[2]) and np.allclose(g1[1], g0[1], rtol=1e-10, atol=1e-12), **extra)
    return r.done(outcome=[case["scale"], cls, variant])


def case_fit(case):
    """fitting Yadrenko-variogram data given at great-circle lags recovers the model"""
    r = R()
    gsc, cls = SCALES[case["scale"]], case["cls"]
    truth = _model(cls, gsc)
    truth.nugget = 0.2
    extra = {"scale": case["scale"], "cls": cls}
    lags = np.linspace(0.05, 2.6, 24) * gsc
    y = truth.vario_yadrenko(lags)
    fitm = getattr(gs, cls)(latlon=True, geo_scale=gsc, **({"nu": 1.5} if cls == "Matern" else {"alpha": 1.4} if cls == "Stable" else {}))
    opt = {"nu": False} if cls == "Matern" else ({"alpha": False} if cls == "Stable" else {})
    res, pcov, r2 = fitm.fit_variogram(lags, y, return_r2=True, init_guess={"var": 1.5, "len_scale": 0.8 * gsc, "nugget": 0.25}, **opt)
    r.true("fit at great-circle lags: r2 -> 1", r2 > 1 - 1e-8, info=r2, **extra)
    r.close("fit at great-circle lags recovers var, len_scale, nugget", [fitm.var, fitm.len_scale / gsc, fitm.nugget], [truth.var, truth.len_scale / gsc, 0.2], rtol=1e-4, atol=1e-5, **extra)
    r.close("fitted Yadrenko variogram reproduces the data", fitm.vario_yadrenko(lags), y, rtol=1e-6, atol=1e-8, **extra)
    return r.done(outcome=[case["scale"], cls])


def case_spacetime(case):
    """spatio-temporal (non lat-lon) models: time appended, scaled by the last ratio, never rotated into space"""
    r = R()
    sd, ta = case["sdim"], case["t_anis"]
    ang_in = case["angles"]
    sp_anis = [0.5, 1.5][: sd - 1]
    extra = {"sdim": sd}
    m = gs.Exponential(temporal=True, spatial_dim=sd, var=1.3, len_scale=2.0, anis=sp_anis + [ta], angles=ang_in)
    d = sd + 1
    r.eq("spatio-temporal: dim == spatial_dim + 1", (m.dim, m.field_dim, m.spatial_dim), (d, d, sd), **extra)
    nsp = og.n_angles(sd)
    exp_ang = (list(np.atleast_1d(ang_in))[:nsp] + [0.0] * nsp)[:nsp] + [0.0] * (og.n_angles(d) - nsp)
    r.close("angles that would rotate time into space are zero (constructor)", m.angles, exp_ang, rtol=0, atol=0, **extra)
    m.angles = ang_in
    r.close("angles that would rotate time into space are zero (setter)", m.angles, exp_ang, rtol=0, atol=0, **extra)
    rng = np.random.RandomState(4)
    pos = rng.uniform(-3, 3, size=(d, 6))
    iso = m.isometrize(pos)
    sp = og.isometrize(sd, exp_ang[:nsp], sp_anis, pos[:sd]) if sd > 1 else pos[:sd]
    r.close("isometrize: spatial part by the spatial rotation/anisotropy only", iso[:sd], sp, rtol=1e-12, atol=1e-12, **extra)
    r.close("isometrize: time / anis_t", iso[sd], pos[sd] / ta, rtol=1e-13, atol=1e-15, **extra)
    p2 = pos.copy()
    p2[sd] += 1.75
    r.close("time shift leaves the spatial coordinates unchanged", m.isometrize(p2)[:sd], iso[:sd], rtol=0, atol=0, **extra)
    # covariance of a pure time lag and of a pure space lag
    dt = np.array([0.0, 0.4, 1.3])
    lag = np.zeros((d, 3))
    lag[sd] = dt
    r.close("covariance of a pure time lag == cov(dt / anis_t)", m.cov_spatial(lag), m.covariance(dt / ta), rtol=1e-12, atol=1e-14, **extra)
    # pipelines against the reference (space-time metric kriging, SRF structure)
    geo = kr.Geo("euclid+time", sd, anis=sp_anis, angles=exp_ang[:nsp], t_anis=ta)
    cp = rng.uniform(0, 5, size=(d, 5))
    cv = np.array([0.3, 1.1, -0.4, 0.8, 1.9])
    tp = rng.uniform(0, 5, size=(d, 6))
    for variant, unb in (("Simple", False), ("Ordinary", True)):
        K = getattr(gs.krige, variant)
        kw = {"mean": 0.4} if variant == "Simple" else {}
        f, v = K(m, cp, cv, **kw)(tp)
        ref = kr.RefKrige("Exponential", {}, 1.3, 2.0, 0.0, geo, cp, cv, unbiased=unb, mean=0.4 if variant == "Simple" else None)
        w, est, var = ref.solve(tp)
        r.close("space-time kriging == dense metric space-time kriging (field)", f, ref.post(est, tp), rtol=1e-7, atol=ref.tol(2.0), variant=variant, **extra)
        r.close("space-time kriging == dense metric space-time kriging (variance)", v, np.maximum(var, 0), rtol=1e-7, atol=ref.tol(2.0), variant=variant, **extra)
    srf = gs.SRF(m, seed=5, mode_no=16)
    fld = srf(tp)
    g = srf.generator
    ph = g._cov_sample.T @ geo.iso(tp)
    u = math.sqrt(m.var / g.mode_no) * (g._z_1 @ np.cos(ph) + g._z_2 @ np.sin(ph))
    r.close("space-time SRF == mode sum at the metric space-time coordinates", fld, u, rtol=1e-10, atol=1e-12, **extra)
    return r.done(outcome=[sd, ta])


GROUPS = {"embed": case_embed, "cov": case_cov, "sphere_rot": case_sphere_rot, "fit": case_fit, "spacetime": case_spacetime}


def run(chk):
    tier, seed = chk.tier, chk.seed
    gen = generic_values(seed, 9, -3.0, 3.0, "C13")
    ec = [{"scale": s, "temporal": t, "t_anis": ta} for s in SCALES for t in (False, True) for ta in ((1.0,) if not t else (1.0, 0.25, 4.0))]
    chk.run("embed", case_embed, ec, rule="geo_scale {rad, deg, km, 17.3} x temporal x time anisotropy {1, .25, 4} on the full lat x lon alphabet {-90,-45,0,30,90} x {-180,-90,0,179.999,180,270,540}: sphere embedding, inverse, chordal <-> great-circle, forced dim / isotropy / zero angles")
    pts = list(itertools.product(LATS, LONS)) + [(10.0 * gen[0], 50.0 * gen[1])]
    pairs = list(itertools.combinations(range(len(pts)), 2))
    # (TPL models: variance = intensity x factor, so that var and the raw variance differ)
    classes = ["Exponential", "Gaussian", "Matern", "Spherical", "TPLGaussian", "TPLExponential"] if tier != "quick" else ["Exponential", "Matern", "TPLGaussian"]
    cc = [{"scale": s, "cls": c, "p1": list(pts[i]), "p2": list(pts[j])} for s in (SCALES if tier != "quick" else ["rad", "km"]) for c in classes for (i, j) in pairs[:: (1 if tier != "quick" else 3)]]
    chk.run("cov", case_cov, cc, rule="all pairs of the lat-lon alphabet x geo_scale x model: covariance read back from a one-point simple kriging and the SRF mode sum vs Yadrenko covariance of the oracle great-circle distance", chunk=16)
    rc = [{"scale": s, "cls": c, "variant": v, "angles": [[gen[0], gen[1], gen[2]], [gen[3], gen[4], gen[5]], [gen[6], gen[7], gen[8]]]} for s in SCALES for c in ["Exponential", "Gaussian"] for v in ["Simple", "Ordinary", "Universal"] if not (v == "Universal")]
    chk.run("sphere_rot", case_sphere_rot, rc, rule="kriging (Simple, Ordinary) and variogram estimation of lat-lon data under the 24 cube rotations and 3 generic rotations of the sphere x geo_scale x model")
    fc = [{"scale": s, "cls": c} for s in SCALES for c in ["Exponential", "Gaussian", "Matern", "Stable", "Spherical"]]
    chk.run("fit", case_fit, fc, rule="fit_variogram on Yadrenko-variogram data at great-circle lags x geo_scale x model")
    angs = [[0.6], [0.6, 0.3], [0.6, 0.3, -0.4], [0.6, 0.3, -0.4, 0.2, 0.1, 0.5], 0.6, [0.0, 0.7, 0.7]]
    sc = [{"sdim": sd, "t_anis": ta, "angles": a} for sd in (1, 2, 3) for ta in (1.0, 0.25, 4.0) for a in angs]
    chk.run("spacetime", case_spacetime, sc, rule="spatio-temporal models, spatial_dim 1-3 x time anisotropy x angle vectors of every length (more angles than spatial rotations): zeroed space-time angles (constructor, setter), isometrize, pure time / space lags, metric space-time kriging and SRF structure")
    chk.assume("great-circle distances are computed by the atan2 (Vincenty) formula and the sphere embedding by spherical trigonometry; universal kriging is excluded from the rotation invariance because its drift functions are functions of latitude and longitude")
