"""C14 - model parameters form a consistent state independent of how it was reached.

Explicit-state breadth-first search on real CovModel objects: every transition is a
real setter call; every reached state is compared with a boring reference state (a
dict updated by the documented rules) and with a *freshly constructed* model built
from that reference state (differential oracle).  Legality of a value is decided by
direct construction: an assignment must raise iff constructing a model directly with
the resulting values raises.
"""
import copy
import json
import math
import os
import warnings

import numpy as np

import gstools as gs

from ..core import R, jsonable

LEVEL = "model_checking"
warnings.simplefilter("ignore")


def nang(d):
    return d * (d - 1) // 2


LAGS = np.array([0.0, 0.1, 0.5, 1.0, 2.0, 5.0])


# ---------------------------------------------------------------------------
# reference state and its documented update rules
def init_state(cfg):
    d = cfg["dim"]
    if cfg["latlon"]:
        d = 3 + int(cfg["temporal"])
    st = {
        "dim": d,
        "var_raw": 2.0,
        "len_scale": 1.5,
        "anis": [0.5, 0.8, 1.5][: d - 1],
        "angles": [0.3, -0.2, 0.7, 0.1, 0.4, -0.5][: nang(d)],
        "nugget": 0.1,
        "rescale": None,
        "opts": dict(cfg.get("opts", {})),
        "bounds": {},
    }
    return normalise(cfg, st)


def normalise(cfg, st):
    """rules that hold in every state: lat-lon keeps space isotropic and unrotated; no
    rotation between space and time"""
    st = copy.deepcopy(st)
    d = st["dim"]
    if cfg["latlon"]:
        st["anis"] = [1.0, 1.0] + list(st["anis"][2:])
        st["angles"] = [0.0] * nang(d)
    elif cfg["temporal"]:
        st["angles"] = list(st["angles"][: nang(d - 1)]) + [0.0] * (nang(d) - nang(d - 1))
    return st


def build(cfg, st):
    """construct a model directly from a state dict (raises iff the state is illegal)"""
    C = getattr(gs, cfg["cls"])
    kw = dict(
        var_raw=st["var_raw"],
        len_scale=st["len_scale"],
        angles=list(st["angles"]) if st["angles"] else 0.0,
        nugget=st["nugget"],
        rescale=st["rescale"],
        latlon=cfg["latlon"],
        temporal=cfg["temporal"],
    )
    if st["anis"]:
        kw["anis"] = list(st["anis"])
    if cfg["latlon"]:
        kw["geo_scale"] = cfg.get("geo_scale", 1.0)
    else:
        kw["dim"] = st["dim"]
    kw.update(st["opts"])
    m = C(**kw)
    if st["bounds"]:
        m.set_arg_bounds(check_args=False, **{k: list(v) for k, v in st["bounds"].items()})
        m.check_arg_bounds()
    return m


class Reject(Exception):
    pass


class SkipOp(Exception):
    pass


def doc_bounds(cfg, st):
    """default bounds as documented in the class docstrings (dimension dependent where stated)"""
    d = st["dim"]
    inf = math.inf
    b = {"var": [0.0, inf, "oo"], "len_scale": [0.0, inf, "oo"], "nugget": [0.0, inf, "co"], "anis": [0.0, inf, "oo"]}
    cls = cfg["cls"]
    if cls == "Stable":
        b["alpha"] = [0.0, 2.0, "oc"]
    elif cls == "Matern":
        b["nu"] = [0.2, 30.0, "cc"]
    elif cls == "SuperSpherical":
        b["nu"] = [(d - 1) / 2, 50.0, "cc"]
    elif cls == "JBessel":
        b["nu"] = [d / 2 - 1, 50.0, "cc"]
    elif cls == "TPLSimple":
        b["nu"] = [(d + 1) / 2, 50.0, "cc"]
    elif cls == "TPLStable":
        b["hurst"] = [0.1, 1.0, "oo"]  # the code's value; the docstring says 0 (values in (0, 0.1] are not in the alphabet)
        b["alpha"] = [0.0, 2.0, "oc"]
        b["len_low"] = [0.0, inf, "co"]
    for k, v in st["bounds"].items():
        b[k] = list(v) if len(v) == 3 else list(v) + ["cc"]
    return b


def ref_var(cfg, st):
    """variance = raw variance x intensity factor (documented formula for TPL models)"""
    if cfg["cls"] == "TPLStable":
        h = st["opts"]["hurst"]
        rs = st["rescale"] or 1.0
        lo = st["opts"]["len_low"] / rs
        up = (st["opts"]["len_low"] + st["len_scale"]) / rs
        return st["var_raw"] * (up ** (2 * h) - lo ** (2 * h)) / (2 * h)
    return st["var_raw"]


def ref_legal(cfg, st):
    """every parameter inside its (documented default or custom) bounds"""
    b = doc_bounds(cfg, st)
    vals = {"var": ref_var(cfg, st), "len_scale": st["len_scale"], "nugget": st["nugget"], "anis": st["anis"] or [1.0]}
    vals.update(st["opts"])
    for k, v in vals.items():
        try:
            if not _in_bounds(v, b[k]):
                return False
        except Exception:
            return False
    return True


def _valid_bounds(b):
    if len(b) not in (2, 3):
        return False
    if not b[1] > b[0]:
        return False
    if len(b) == 3 and b[2] not in ("oo", "oc", "co", "cc"):
        return False
    return True


def _in_bounds(v, b):
    typ = b[2] if len(b) == 3 else "cc"
    v = np.atleast_1d(np.asarray(v, dtype=float))
    lo_ok = np.all(v >= b[0]) if typ[0] == "c" else np.all(v > b[0])
    hi_ok = np.all(v <= b[1]) if typ[1] == "c" else np.all(v < b[1])
    return bool(lo_ok and hi_ok)


def ref_apply(cfg, st, op):
    """documented update rule; returns (new_state, free) where ``free`` lists fields whose
    new value the documentation does not pin (taken from the object, then validated)."""
    st = copy.deepcopy(st)
    st.pop("_int_target", None)
    k, v = op["k"], op.get("v")
    d = st["dim"]
    free = []
    if k == "var":
        fac = build(cfg, st).var_factor()
        st["var_raw"] = float(v) / fac
    elif k == "var_raw":
        st["var_raw"] = float(v)
    elif k == "len_scale" or k == "integral_scale":
        L = list(np.atleast_1d(np.asarray(v, dtype=float)))[:d]
        if len(L) == 1:
            st["len_scale"] = L[0]
        else:
            L = L + [L[-1]] * (d - len(L))
            st["len_scale"] = L[0]
            if L[0] == 0:
                raise Reject("zero main length scale")
            st["anis"] = [x / L[0] for x in L[1:]]
            if any(not (a > 0) for a in st["anis"]):
                raise Reject("anisotropy ratio <= 0")
        if k == "integral_scale":
            target = st["len_scale"]
            if not target > 0:
                raise Reject("integral scale <= 0")
            # integral scale of the same model with unit length scale, by quadrature of the
            # correlation of a freshly constructed model (integral scale is linear in len_scale)
            from scipy.integrate import quad

            unit = build(cfg, {**st, "len_scale": 1.0, "bounds": {}})
            i1 = quad(lambda x: float(unit.correlation(x)), 0, np.inf, limit=400)[0]
            st["len_scale"] = target / i1
            st["_int_target"] = target
    elif k == "anis":
        a = list(np.atleast_1d(np.asarray(v, dtype=float)))[: d - 1]
        a = [1.0] * (d - 1 - len(a)) + a
        if any(not (x > 0) for x in a):
            raise Reject("anisotropy ratio <= 0")
        st["anis"] = a
    elif k == "angles":
        a = list(np.atleast_1d(np.asarray(v, dtype=float)))[: nang(d)]
        st["angles"] = a + [0.0] * (nang(d) - len(a))
    elif k == "nugget":
        st["nugget"] = float(v)
    elif k == "rescale":
        st["rescale"] = abs(float(v))
    elif k == "opt":
        st["opts"][op["name"]] = float(v)
    elif k == "dim":
        if not cfg["latlon"]:
            nd = int(v)
            if nd < 1:
                raise Reject("dim < 1")
            a = list(st["anis"])[: nd - 1]
            st["anis"] = [1.0] * (nd - 1 - len(a)) + a
            g = list(st["angles"])[: nang(nd)]
            st["angles"] = g + [0.0] * (nang(nd) - len(g))
            st["dim"] = nd
    elif k == "bounds":
        b = list(op["b"])
        if not _valid_bounds(b):
            raise Reject("invalid bounds specification")
        name = op["name"]
        st["bounds"][name] = b
        cur = {"var": None, "len_scale": st["len_scale"], "nugget": st["nugget"], "anis": st["anis"] or [1.0]}.get(name, st["opts"].get(name))
        if name == "var":
            m0 = build(cfg, {**st, "bounds": {}})
            cur = m0.var
        if not _in_bounds(cur, b):
            if op.get("via") == "property":
                # the bounds properties are plain setters (no value check is documented): narrowing
                # them below the current value is a caller-made inconsistency, not explored further
                raise SkipOp("bounds property narrowed below the current value")
            free.append({"var": "var_raw"}.get(name, name))
    else:
        raise KeyError(k)
    return normalise(cfg, st), free


TARGET = {
    "var": ["var_raw", "var"],
    "var_raw": ["var_raw", "var"],
    "len_scale": ["len_scale", "anis"],
    "integral_scale": ["len_scale", "anis"],
    "anis": ["anis"],
    "angles": ["angles"],
    "nugget": ["nugget"],
    "rescale": ["rescale"],
    "dim": ["dim", "anis", "angles", "bounds"],
    "bounds": ["bounds"],
}


def lib_apply(m, op):
    k, v = op["k"], op.get("v")
    if k == "opt":
        setattr(m, op["name"], v)
    elif k == "bounds":
        if op.get("via") == "property":
            setattr(m, op["name"] + "_bounds", list(op["b"]))
        else:
            m.set_arg_bounds(check_args=True, **{op["name"]: list(op["b"])})
    else:
        setattr(m, k, v)


def _bnd(b):
    b = list(b)
    return [float(b[0]), float(b[1]), b[2] if len(b) == 3 else "cc"]


def lib_state(m):
    return {
        "dim": int(m.dim),
        "var_raw": float(m.var_raw),
        "var": float(m.var),
        "len_scale": float(m.len_scale),
        "anis": [float(x) for x in m.anis],
        "angles": [float(x) for x in m.angles],
        "nugget": float(m.nugget),
        "rescale": float(m.rescale),
        "opts": {o: float(getattr(m, o)) for o in m.opt_arg},
        "bounds": {k: _bnd(v) for k, v in m.arg_bounds.items()},
    }


def canon(cfg, st):
    def rd(x):
        if isinstance(x, (list, tuple)):
            return [rd(v) for v in x]
        if isinstance(x, dict):
            return {k: rd(v) for k, v in sorted(x.items())}
        if isinstance(x, float):
            return float(f"{x:.9g}")
        return x

    return json.dumps(rd({k: v for k, v in st.items() if not k.startswith("_")}), sort_keys=True)


def compare_state(r, prefix, m, cfg, st, fresh, extra, fields=None):
    """object's public attributes == reference state (per field, so findings can be keyed)"""
    ls = lib_state(m)
    fs = lib_state(fresh)
    ok = True
    for f in fields or ["dim", "var_raw", "var", "len_scale", "anis", "angles", "nugget", "rescale", "opts", "bounds"]:
        ex = dict(extra, field=f)
        if f in ("opts",):
            ok &= r.close(f"{prefix} {f}", [ls[f][k] for k in sorted(ls[f])], [fs[f].get(k, math.nan) for k in sorted(ls[f])], rtol=1e-12, atol=1e-14, **ex)
        elif f == "bounds":
            ok &= r.true(f"{prefix} {f}", ls[f] == fs[f], info={"object": ls[f], "fresh": fs[f]}, **ex)
        elif f == "dim":
            ok &= r.eq(f"{prefix} {f}", ls[f], fs[f], **ex)
        else:
            ok &= r.close(f"{prefix} {f}", ls[f], fs[f], rtol=(1e-2 if (cfg["cls"] == "Matern" and st["opts"].get("nu", 0) > 20) else 1e-6) if (f in ("len_scale", "var") and st.get("_int_target")) else 1e-12, atol=1e-14, **ex)
    return ok


def derived_checks(r, m, cfg, fresh, extra):
    d = m.dim
    r.close("sill == var + nugget", m.sill, m.var + m.nugget, rtol=1e-14, **extra)
    r.eq("len(anis) == dim-1", len(m.anis), d - 1, **extra)
    r.eq("len(angles) == dim(dim-1)/2", len(m.angles), nang(d), **extra)
    exp_vec = [m.len_scale] + [m.len_scale * a for a in m.anis]
    r.close("len_scale_vec == len_scale*[1,anis]", m.len_scale_vec, exp_vec, rtol=1e-14, **extra)
    fd = 2 + int(cfg["temporal"]) if cfg["latlon"] else d
    sd = 2 if cfg["latlon"] else d - int(cfg["temporal"])
    r.eq("field_dim", m.field_dim, fd, **extra)
    r.eq("spatial_dim", m.spatial_dim, sd, **extra)
    r.true("model == freshly constructed model", bool(m == fresh) and bool(fresh == m), info=repr(m) + " vs " + repr(fresh), **extra)
    r.close("variogram(lags) == fresh", m.variogram(LAGS), fresh.variogram(LAGS), rtol=1e-12, atol=1e-14, **extra)
    r.close("cor(lags) == fresh", m.cor(LAGS), fresh.cor(LAGS), rtol=1e-12, atol=1e-14, **extra)
    if extra.get("opk") in ("dim", "rescale", "init"):
        kk = np.array([0.0, 0.4, 2.0])
        r.close("spectral_density == fresh", m.spectral_density(kk), fresh.spectral_density(kk), rtol=1e-12, atol=1e-300, **extra)
    if cfg["cls"] not in SLOW_INT or extra.get("opk") in ("opt", "integral_scale", "init"):
        r.close("integral_scale == fresh", m.integral_scale, fresh.integral_scale, rtol=1e-10, **extra)
        r.close("integral_scale_vec == fresh", m.integral_scale_vec, fresh.integral_scale_vec, rtol=1e-10, **extra)
        r.close("len_rescaled == fresh", m.len_rescaled, fresh.len_rescaled, rtol=1e-14, **extra)
    rng = np.random.RandomState(3)
    if cfg["latlon"]:
        pos = np.array([[10.0, -40.0, 80.0], [20.0, 170.0, -100.0]] + ([[0.0, 1.0, 2.5]] if cfg["temporal"] else []))
        r.close("isometrize == fresh", m.isometrize(pos), fresh.isometrize(pos), rtol=1e-12, atol=1e-13, **extra)
        r.close("cov_yadrenko == fresh", m.cov_yadrenko(LAGS[:4]), fresh.cov_yadrenko(LAGS[:4]), rtol=1e-12, atol=1e-14, **extra)
    else:
        pos = rng.uniform(-2, 2, size=(d, 4))
        r.close("isometrize == fresh", m.isometrize(pos), fresh.isometrize(pos), rtol=1e-12, atol=1e-13, **extra)
        r.close("cov_spatial == fresh", m.cov_spatial(pos), fresh.cov_spatial(pos), rtol=1e-12, atol=1e-14, **extra)


def case_step(case):
    """replay the history on a fresh object; check the invariants of the last step"""
    cfg, hist = case["cfg"], case["hist"]
    r = R()
    st = init_state(cfg)
    m = build(cfg, st)
    if not hist:
        fresh = build(cfg, st)
        compare_state(r, "initial", m, cfg, st, fresh, {"opk": "init"})
        derived_checks(r, m, cfg, fresh, {"opk": "init"})
        # deepcopy gives an equal, independent model
        mc = copy.deepcopy(m)
        r.true("deepcopy == model", bool(mc == m), **{"opk": "init"})
        # constructor keyword forms reach the same state as the corresponding assignments
        C = getattr(gs, cfg["cls"])
        base = dict(latlon=cfg["latlon"], temporal=cfg["temporal"], nugget=st["nugget"], rescale=st["rescale"], angles=list(st["angles"]) if st["angles"] else 0.0, **st["opts"])
        if st["anis"]:
            base["anis"] = list(st["anis"])
        if cfg["latlon"]:
            base["geo_scale"] = cfg.get("geo_scale", 1.0)
        else:
            base["dim"] = st["dim"]
        ex = {"opk": "init", "cls": cfg["cls"]}
        for v in (0.5, 2.0):
            a = C(var=v, len_scale=st["len_scale"], **base)
            r.close("constructor var= gives that variance", a.var, v, rtol=1e-12, form="var", **ex)
            b = build(cfg, st)
            b.var = v
            r.true("constructor var= == assignment of var", bool(a == b), info=repr(a) + " vs " + repr(b), form="var", **ex)
            if cfg["cls"] != "JBessel" and st["opts"].get("len_low", 0.0) == 0:
                for target in (2.0, [2.0, 1.0]):
                    a = C(var=v, integral_scale=target, **base)
                    r.close("constructor var= with integral_scale= gives that variance", a.var, v, rtol=1e-9, form="integral_scale", **ex)
                    r.close("constructor integral_scale= gives that integral scale", a.integral_scale, 2.0, rtol=1e-5, form="integral_scale", **ex)
                    b = C(var=v, len_scale=1.0, **base)
                    b.integral_scale = target
                    b.var = v
                    r.close("constructor integral_scale= == assignment of integral_scale then var (len_scale)", a.len_scale, b.len_scale, rtol=1e-9, form="integral_scale", **ex)
                    r.close("constructor integral_scale= == assignment of integral_scale then var (var_raw)", a.var_raw, b.var_raw, rtol=1e-9, form="integral_scale", **ex)
                    r.close("constructor integral_scale= == assignment (anis)", a.anis, b.anis, rtol=1e-12, form="integral_scale", **ex)
        # parameters given as arrays: not written, not kept by reference, not shared between models
        if not cfg["latlon"] and st["dim"] >= 2:
            na = nang(st["dim"])
            arr = np.array([0.3, 0.2, 0.1, 0.4, 0.5, 0.6][:na], dtype=np.double)
            ans = np.array([0.5, 2.0, 0.7][: st["dim"] - 1], dtype=np.double)
            keep_a, keep_s = arr.copy(), ans.copy()
            a = C(var=1.0, len_scale=st["len_scale"], **dict(base, angles=arr, anis=ans))
            b = C(var=1.0, len_scale=st["len_scale"], **base)
            b.angles = a.angles
            b.anis = a.anis
            ang_a, anis_a = np.array(a.angles), np.array(a.anis)
            r.close("arrays given as angles / anis are not written", np.concatenate([arr, ans]), np.concatenate([keep_a, keep_s]), rtol=0, atol=0, form="arrays", **ex)
            arr *= 2.0
            ans *= 0.5
            if st["dim"] > 2:
                b.dim = st["dim"] - 1
            b.angles = 0.0
            r.close("model parameters do not follow the arrays they were given as, nor another model they were copied to", np.concatenate([np.array(a.angles), np.array(a.anis)]), np.concatenate([ang_a, anis_a]), rtol=0, atol=0, form="arrays", **ex)
        return r.done(outcome=canon(cfg, st))
    _touch(m, hist[0])
    for i, op in enumerate(hist):
        last = i == len(hist) - 1
        if i:
            _touch(m, op)
        if op["k"] == "integral_scale" and st["opts"].get("len_low", 0.0) > 0:
            # TPL models with a lower cut-off: integral scale is not proportional to len_scale and
            # the library documents that it may refuse ("please provide a len_scale")
            return r.done(skip="integral_scale assignment on a TPL model with len_low > 0 (not proportional to len_scale)")
        if op["k"] == "integral_scale" and cfg["cls"].startswith("TPL") and "var" in st["bounds"]:
            # the setter evaluates the model at unit length scale on its way (documented algorithm);
            # with a TPL variance that follows len_scale this intermediate can leave custom var bounds
            return r.done(skip="integral_scale assignment on a TPL model with custom var bounds (intermediate unit length scale)")
        # reference
        try:
            new, free = ref_apply(cfg, st, op)
            rule_reject = None
        except Reject as e:
            new, free, rule_reject = None, [], str(e)
        except SkipOp as e:
            return r.done(skip=str(e))
        legal = False
        if new is not None:
            if free:
                legal = True  # decided after reading the free field back
            else:
                legal = ref_legal(cfg, new)
                try:
                    build(cfg, new)
                    constructible = True
                except Exception as e:
                    constructible = repr(e)
                if last and (constructible is True) != legal:
                    r.fail("direct construction agrees with the documented bounds", constructible, legal, "", opk=op["k"], cls=cfg["cls"], state=new)
                    return r.done(outcome="X")
        # implementation
        raised = None
        try:
            lib_apply(m, op)
        except Exception as e:  # noqa
            raised = f"{type(e).__name__}: {e}"
        if not last:
            # earlier steps were judged when this prefix was the whole history; only clean
            # prefixes are extended, so the step was accepted and the state followed the rule
            if raised or not legal:
                return r.done(skip="prefix contains a rejected step (state unchanged, reached earlier)")
            if free:
                new = _fill_free(m, new, free)
            if "_int_target" in new:
                new["len_scale"] = float(m.len_scale)
            new.pop("_int_target", None)
            st = new
            continue
        extra = {"opk": op["k"], "expect": "accept" if legal else "reject", "raised": bool(raised), "opname": op.get("name", op["k"]), "cls": cfg["cls"]}
        if legal and free:
            new = _fill_free(m, new, free)
            try:
                build(cfg, new)
            except Exception as e:
                r.fail("value chosen by the library is not constructible", repr(e), "legal value", **extra)
                return r.done(outcome="X")
        if not legal:
            r.true("out-of-bounds / invalid assignment is rejected", bool(raised), info={"op": op, "state": st}, **extra)
            fresh = build(cfg, st)
            tgt = list(TARGET.get(op["k"], ["opts"] if op["k"] == "opt" else []))
            if cfg["cls"].startswith("TPL") and op["k"] in ("len_scale", "integral_scale", "opt", "rescale"):
                tgt.append("var")
            for f in ["dim", "var_raw", "var", "len_scale", "anis", "angles", "nugget", "rescale", "opts", "bounds"]:
                compare_state(r, "rejected op leaves state unchanged:", m, cfg, st, fresh, dict(extra, field_is_target=(f in tgt or (op["k"] == "opt" and f == "opts"))), fields=[f])
            if not r.fails:
                derived_checks(r, m, cfg, fresh, extra)
            return r.done(outcome=canon(cfg, st))
        # legal op
        if raised:
            r.fail("legal assignment raised", raised, "accepted (direct construction with the resulting values succeeds)", **extra)
            return r.done(outcome="X")
        fresh = build(cfg, new)
        ok = compare_state(r, "state follows documented rule:", m, cfg, new, fresh, extra)
        if ok and "_int_target" in new:
            # reference length scale is quadrature based (1e-6); continue with the object's value
            new["len_scale"] = float(m.len_scale)
            fresh = build(cfg, new)
        if ok:
            derived_checks(r, m, cfg, fresh, extra)
            # equality is decided by the values: a model whose parameters were changed differs from the
            # model before the change (judged on the reference states, not through the library's __eq__)
            sa = json.loads(canon(cfg, {k: v for k, v in st.items() if k != "bounds"}))
            sb = json.loads(canon(cfg, {k: v for k, v in new.items() if k != "bounds"}))
            if sa != sb:
                prev = build(cfg, st)
                r.true("model after a value-changing assignment != model before the assignment", bool(m != prev) and not bool(m == prev), info=repr(m) + " vs " + repr(prev), **extra)
            if "_int_target" in new and not (cfg["cls"] == "Matern" and new["opts"]["nu"] > 20):
                # (Matern nu > 20 evaluates the documented Gaussian limit: judged by C03, not here)
                from scipy.integrate import quad

                val = quad(lambda x: float(m.correlation(x)), 0, np.inf, limit=200)[0]
                r.close("integral of correlation == prescribed integral scale", val, new["_int_target"], rtol=1e-5, **extra)
                r.close("integral_scale attribute == prescribed", m.integral_scale, new["_int_target"], rtol=1e-5, **extra)
                r.close("integral_scale_vec == prescribed * [1, anis]", m.integral_scale_vec, [new["_int_target"]] + [new["_int_target"] * a for a in new["anis"]], rtol=1e-5, **extra)
            if op["k"] == "var":
                r.close("var == assigned", m.var, float(op["v"]), rtol=1e-12, **extra)
            for fname in free:
                b = new["bounds"].get({"var_raw": "var"}.get(fname, fname))
                if b is not None:
                    val = m.var if fname == "var_raw" else getattr(m, fname)
                    r.true("value reset by set_arg_bounds lies inside the new bounds", _in_bounds(val, b), info={"val": np.asarray(val, dtype=float).tolist(), "b": b}, **extra)
        new.pop("_int_target", None)
        return r.done(outcome=canon(cfg, new))
    return r.done(outcome=canon(cfg, st))


SLOW_INT = ("JBessel", "TPLStable")  # integral scale by quadrature of a slow correlation (40 ms)


def _touch(m, op=None):
    """use the model between the steps (anything cached by an evaluation must not survive a change)"""
    try:
        m.variogram(LAGS)
        m.cor(LAGS)
        m.spectral_density(np.array([0.5]))
        if m.name not in SLOW_INT or (op or {}).get("k") in ("opt", "integral_scale"):
            m.integral_scale
            m.integral_scale_vec
    except Exception:
        pass


def _fill_free(m, new, free):
    new = copy.deepcopy(new)
    for f in free:
        if f == "var_raw":
            new["var_raw"] = float(m.var_raw)
        elif f == "len_scale":
            new["len_scale"] = float(m.len_scale)
        elif f == "nugget":
            new["nugget"] = float(m.nugget)
        elif f == "anis":
            new["anis"] = [float(a) for a in m.anis]
        else:
            new["opts"][f] = float(getattr(m, f))
    return new


# ---------------------------------------------------------------------------
OPT_VALUES = {
    # name: {cls: [values...]}  lower bound / inside / upper bound / outside, dimension dependent
    "Stable": {"alpha": [2.0, 0.7, 0.0, 2.5]},
    "Matern": {"nu": [0.2, 2.5, 20.0, 30.0, 0.1]},
    "SuperSpherical": {"nu": [0.0, 0.5, 1.0, 3.0, 50.0, 51.0]},
    "JBessel": {"nu": [-0.5, 0.0, 0.5, 3.0, 50.0]},
    "TPLSimple": {"nu": [1.0, 1.5, 2.0, 4.0]},
    "TPLStable": {"hurst": [0.3, 0.99, 1.0], "alpha": [2.0, 0.0], "len_low": [0.0, 0.5, -0.1]},
    "Gaussian": {},
    "Exponential": {},
}
DEFAULT_OPTS = {
    "Stable": {"alpha": 1.5},
    "Matern": {"nu": 1.0},
    "SuperSpherical": {"nu": 3.0},
    "JBessel": {"nu": 3.0},
    "TPLSimple": {"nu": 4.0},
    "TPLStable": {"hurst": 0.5, "alpha": 1.5, "len_low": 0.0},
}


def ops_for(cfg, tier="quick"):
    ops = []
    A = ops.append
    for v in [0.5, 3.0, -1.0, 0.0]:
        A({"k": "var", "v": v})
    A({"k": "var_raw", "v": 1.5})
    for v in [0.7, [2.0, 1.0], [2.0, 1.0, 4.0], [1.0, 2.0, 3.0, 0.5], 0.0, [1.0, 0.0], [2.0, 0.1]]:
        A({"k": "len_scale", "v": v})
    for v in [0.25, [0.5, 2.0], [0.0, 1.0], [2.0, 0.5, 3.0], [0.5, 20.0]]:
        A({"k": "anis", "v": v})
    for v in [0.4, [0.1, 0.2, 0.3], [0.0]]:
        A({"k": "angles", "v": v})
    for v in [0.3, 0.0, -1e-9]:
        A({"k": "nugget", "v": v})
    for name, vals in OPT_VALUES.get(cfg["cls"], {}).items():
        for v in vals:
            A({"k": "opt", "name": name, "v": v})
    if not cfg["latlon"]:
        for v in [1, 2, 3, 4]:
            if cfg["temporal"] and v == 1:
                continue
            A({"k": "dim", "v": v})
    else:
        A({"k": "dim", "v": 2})
    if cfg["cls"] != "JBessel":  # oscillating correlation: integral scale not absolutely convergent
        for v in [2.0, [2.0, 1.0], [2.0, 0.1]]:
            A({"k": "integral_scale", "v": v})
    for v in [2.0, -3.0]:
        A({"k": "rescale", "v": v})
    A({"k": "bounds", "name": "var", "b": [2.5, 10.0]})
    A({"k": "bounds", "name": "anis", "b": [0.1, 10.0]})
    A({"k": "bounds", "name": "len_scale", "b": [0.5, 4.0]})
    if cfg["cls"] != "JBessel":
        A({"k": "integral_scale", "v": 6.5})
        A({"k": "integral_scale", "v": 0.2})
    A({"k": "bounds", "name": "len_scale", "b": [0.01, 100.0, "oo"]})
    A({"k": "bounds", "name": "nugget", "b": [0.0, 0.3, "co"], "via": "property"})
    A({"k": "bounds", "name": "var", "b": [0.5, 3.0, "oc"]})
    A({"k": "bounds", "name": "len_scale", "b": [5.0, 1.0]})
    A({"k": "bounds", "name": "var", "b": [0.0, 1.0, "xx"]})
    A({"k": "bounds", "name": "nugget", "b": [1.0, 0.0], "via": "property"})
    return ops


def configs(tier):
    out = []

    def add(cls, dim, latlon=False, temporal=False):
        c = {"cls": cls, "dim": dim, "latlon": latlon, "temporal": temporal, "opts": DEFAULT_OPTS.get(cls, {})}
        if latlon:
            c["geo_scale"] = 2.0
        out.append(c)

    classes = ["Gaussian", "Stable", "Matern", "SuperSpherical", "JBessel", "TPLStable", "TPLSimple"]
    for cls in classes:
        for dim in ([2, 3] if tier == "quick" else [1, 2, 3]):
            add(cls, dim)
    for cls in (["Gaussian", "TPLStable"] if tier == "quick" else classes):
        add(cls, 3, temporal=True)
        add(cls, 3, latlon=True)
        add(cls, 3, latlon=True, temporal=True)
    if tier != "quick":
        for cls in ["Gaussian", "Stable"]:
            add(cls, 2, temporal=True)
            add(cls, 4, temporal=True)
    return out


GROUPS = {"setter_bfs": case_step, "setter_bfs_d3": case_step}


def run(chk):
    # thorough: depth 2 from every (class x kind x dim) start, depth 3 from two starts (with the alphabet of the later
    # mutation rounds a depth-3 search from all 46 starts is a multi-hour run: ~1e6 histories)
    depth = 2
    cfgs = configs(chk.tier)
    chk.bfs(
        "setter_bfs",
        case_step,
        cfgs,
        lambda cfg: ops_for(cfg, chk.tier),
        depth,
        rule="BFS over all sequences of setter operations (var, var_raw, len_scale scalar/list, anis, angles, nugget, optional arguments at/inside/outside bounds, dim, integral_scale, rescale, bounds incl. invalid specs) up to the depth bound from each (class x plain/temporal/latlon/latlon+temporal x dim) start; state = reference dict; every history replayed on a fresh real model",
    )
    if chk.tier != "quick":
        d3 = [c for c in cfgs if (c["cls"], c["dim"], c["latlon"], c["temporal"]) in (("Gaussian", 2, False, False), ("Stable", 1, False, False))]
        chk.bfs("setter_bfs_d3", case_step, d3, lambda cfg: ops_for(cfg, chk.tier), 3, rule="the same search to depth 3 from the starts Gaussian (dim 2) and Stable (dim 1)")
    chk.assume("legality of a state is defined by direct construction (a fresh model with the same values must be constructible); operations outside the alphabet (subclassing, pickling, hankel_kw) are not explored")
    chk.assume(f"operation sequences up to depth {depth} (thorough: 3 from two starts); states reached by a failing step are reported but not expanded")
