"""C15 - compiled summation kernels equal their source semantics under every thread count.

Layers (all nine kernel entry points):
 1. the *current* .pyx sources are translated mechanically to Python (gsverif.pyxmc.translate)
    and interpreted with bounds-checked memoryview proxies; the interpretation must be
    bit-identical to the installed compiled artefact on every enumerated input;
 2. both must equal independent defining sums written from the docstrings;
 3. schedules: a stateless explorer enumerates thread interleavings of the parallel loops
    of the translated source (preemption bounded, CHESS style; T = 2, 3; block and cyclic
    iteration assignment) and compares every outcome with the sequential result; a footprint
    analysis shows that no two threads touch the same element with a write (one
    Mazurkiewicz trace: all interleavings equivalent); a deliberately racy variant of a
    kernel must be detected on every run (negative control);
 4. an OpenMP build of the generated C sources (gcc -fopenmp, scratch directory) must be
    bit-identical to the serial artefact for num_threads in {None,1,2,3,4,8,16}, also on large
    shapes; the Python wrappers and the public callers must not depend on config.NUM_THREADS.
"""
import importlib.machinery
import importlib.util
import itertools
import math
import os
import shutil
import subprocess
import sys
import sysconfig
import tempfile
import warnings

import numpy as np

import gstools as gs
from gstools import config
from gstools.field import generator as genmod
from gstools.field import summator as c_sum
from gstools.krige import base as krigemod
from gstools.krige import krigesum as c_krig
from gstools.variogram import estimator as c_est
from gstools.variogram import variogram as vmod

from ..core import R, Vacuous
from ..oracles import variogram as ov
from ..pyxmc import sched as S
from ..pyxmc import translate as T

LEVEL = "model_checking"
warnings.simplefilter("ignore")
SRC = os.path.dirname(gs.__file__)
PYX = {"summator": os.path.join(SRC, "field", "summator.pyx"), "krigesum": os.path.join(SRC, "krige", "krigesum.pyx"), "estimator": os.path.join(SRC, "variogram", "estimator.pyx")}
CMOD = {"summator": c_sum, "krigesum": c_krig, "estimator": c_est}
KERNELS = {
    "summate": "summator",
    "summate_incompr": "summator",
    "summate_fourier": "summator",
    "calc_field_krige": "krigesum",
    "calc_field_krige_and_variance": "krigesum",
    "unstructured": "estimator",
    "directional": "estimator",
    "structured": "estimator",
    "ma_structured": "estimator",
}
_CACHE = {}


def interp(mod):
    if mod not in _CACHE:
        _CACHE[mod] = T.load(PYX[mod])
    return _CACHE[mod]


def _vals(rng, shape, kind="normal", big=True):
    if kind == "alphabet":
        # (1e8 only where it does not enter a trigonometric phase: k.x of order 1e16 has no meaningful cosine)
        return rng.choice([0.0, 1.0, -1.0, 0.5, 1e8, 1e-8] if big else [0.0, 1.0, -1.0, 0.5, 2.5, 1e-8], size=shape)
    if kind == "tiny":
        # amplitude-like arguments far below and around machine epsilon (the sums are linear in them)
        return rng.choice([0.0, 1.0, -1.0, 1e-17, 3e-16, 1e-300] if big else [0.0, 1.0, -1.0, 0.5, 2.5, 1e-8], size=shape)
    return rng.normal(size=shape)


def _layout(x, lay):
    if not isinstance(x, np.ndarray):
        return x
    if lay == "f" and x.ndim > 1:
        return np.asfortranarray(x.copy())
    if lay == "strided":  # every second element of a larger buffer along each axis
        big = np.zeros(tuple(2 * n for n in x.shape), dtype=x.dtype)
        view = big[tuple(slice(None, None, 2) for _ in x.shape)]
        view[...] = x
        return view
    return x.copy()


def wrapper_call(kernel, args, nt, lay="c"):
    """the Python wrapper in front of a kernel, called with the same arguments (in a given memory layout)"""
    a = tuple(_layout(x, lay) for x in args[:-1])
    if kernel == "summate":
        return genmod._summate(*a, nt)
    if kernel == "summate_incompr":
        return genmod._summate_incompr(*a, nt)
    if kernel == "summate_fourier":
        return genmod._summate_fourier(*a, nt)
    if kernel == "calc_field_krige":
        return krigemod._calc_field_krige(*a, nt)
    if kernel == "calc_field_krige_and_variance":
        return krigemod._calc_field_krige_and_variance(*a, nt)
    if kernel == "unstructured":
        return vmod._unstructured(a[0], a[1], a[2], estimator_type=a[3], distance_type=a[4], num_threads=nt)
    if kernel == "directional":
        return vmod._directional(*a, num_threads=nt)
    if kernel == "structured":
        return vmod._structured(a[0], a[1], nt)
    if kernel == "ma_structured":
        return vmod._ma_structured(a[0], a[1].astype(bool), a[2], nt)
    raise KeyError(kernel)


def make_input(kernel, shape, seed, kind="normal"):
    """deterministic input for a kernel; shape is a dict of extents"""
    rng = np.random.RandomState(seed)
    if kernel in ("summate", "summate_incompr"):
        d, N, X = shape["dim"], shape["N"], shape["X"]
        k = _vals(rng, (d, N), kind, big=False)
        if kernel == "summate_incompr":
            k = np.where(np.abs(k).sum(axis=0, keepdims=True) == 0, 1.0, k)
        return (k, _vals(rng, N, kind), _vals(rng, N, kind), _vals(rng, (d, X), kind, big=False), None)
    if kernel == "summate_fourier":
        d, N, X = shape["dim"], shape["N"], shape["X"]
        return (np.abs(_vals(rng, N, kind)), _vals(rng, (d, N), kind, big=False), _vals(rng, N, kind), _vals(rng, N, kind), _vals(rng, (d, X), kind, big=False), None)
    if kernel in ("calc_field_krige", "calc_field_krige_and_variance"):
        m, t = shape["M"], shape["X"]
        return (_vals(rng, (m, m), kind), _vals(rng, (m, t), kind), _vals(rng, m, kind), None)
    if kernel in ("unstructured", "directional"):
        d, n, nf, nb = shape["dim"], shape["X"], shape["F"], shape["B"]
        pos = rng.randint(0, 3, size=(d, n)).astype(float) if kind == "alphabet" else rng.uniform(0, 3, size=(d, n))
        f = rng.choice([0.0, 1.0, 3.5, np.nan], size=(nf, n)) if kind == "alphabet" else rng.normal(size=(nf, n))
        edges = np.array([0.0, 1.0, math.sqrt(2), 2.0, 3.0, 5.0])[: nb + 1]
        est = "m" if seed % 2 == 0 else "c"
        if kernel == "unstructured":
            return (f, edges, pos, est, "e", None)
        dirs = np.eye(d)[: max(1, min(d, shape.get("D", 2)))]
        return (f, edges, pos, dirs, math.pi / 8 + 0.3 * (seed % 3), -1.0 if seed % 2 else 0.9, bool(seed % 3 == 0), est, None)
    if kernel in ("structured", "ma_structured"):
        n, m = shape["X"], shape["Y"]
        f = rng.choice([0.0, 1.0, 3.5, -2.0], size=(n, m)) if kind == "alphabet" else rng.normal(size=(n, m))
        est = "m" if seed % 2 == 0 else "c"
        if kernel == "structured":
            return (f, est, None)
        mask = (rng.uniform(size=(n, m)) < 0.25).astype(np.uint8)
        return (f, mask, est, None)
    raise KeyError(kernel)


def defining(kernel, args):
    """independent defining sums written from the docstrings (numpy, no gstools)"""
    if kernel == "summate":
        k, z1, z2, pos, _ = args
        ph = k.T @ pos
        return z1 @ np.cos(ph) + z2 @ np.sin(ph)
    if kernel == "summate_incompr":
        k, z1, z2, pos, _ = args
        d = pos.shape[0]
        ph = k.T @ pos
        amp = z1[:, None] * np.cos(ph) + z2[:, None] * np.sin(ph)  # (N, X)
        e1 = np.zeros((d, 1))
        e1[0] = 1.0
        with np.errstate(all="ignore"):
            proj = e1 - k * k[0][None, :] / (k * k).sum(axis=0)[None, :]  # (d, N)
        return proj @ amp if k.shape[1] else np.zeros((d, pos.shape[1]))
    if kernel == "summate_fourier":
        sf, modes, z1, z2, pos, _ = args
        ph = modes.T @ pos
        return (sf * z1) @ np.cos(ph) + (sf * z2) @ np.sin(ph)
    if kernel == "calc_field_krige":
        M, V, c, _ = args
        return c @ (M @ V)
    if kernel == "calc_field_krige_and_variance":
        M, V, c, _ = args
        MV_ = M @ V
        return c @ MV_, np.einsum("ik,ik->k", V, MV_)
    if kernel == "unstructured":
        f, edges, pos, est, dt, _ = args
        dist, _d = ov.euclid(pos)
        return ov.unstructured(f, edges, dist, est)
    if kernel == "directional":
        f, edges, pos, dirs, tol, bw, sep, est, _ = args
        dist, dvec = ov.euclid(pos)
        v, c, margin = ov.directional(f, edges, dist, dvec, dirs, tol, bw if bw > 0 else None, est)
        return v, c, margin
    if kernel == "structured":
        f, est, _ = args
        return ov.axis(f, None, 0, est)[0]
    if kernel == "ma_structured":
        f, mask, est, _ = args
        return ov.axis(f, mask.astype(bool), 0, est)[0]
    raise KeyError(kernel)


def _tup(x):
    return x if isinstance(x, tuple) else (x,)


def _bits(x):
    return tuple(np.ascontiguousarray(np.asarray(a)).tobytes() for a in _tup(x))


def case_conform(case):
    r = R()
    kernel = case["kernel"]
    mod = KERNELS[kernel]
    ns, py = interp(mod)
    extra = {"kernel": kernel}
    args = make_input(kernel, case["shape"], case["seed"], case["kind"])
    cargs = tuple(a.copy() if isinstance(a, np.ndarray) else a for a in args)
    try:
        ri = ns[kernel](*tuple(a.copy() if isinstance(a, np.ndarray) else a for a in args))
    except T.IndexViolation as e:
        r.fail("kernel source indexes inside the array bounds (no wraparound / bounds checks in the artefact)", str(e), "all indices within bounds", **extra)
        return r.done(outcome="IDX")
    rc = getattr(CMOD[mod], kernel)(*cargs)
    r.true("compiled artefact == plain interpretation of its own source (bit-wise)", _bits(ri) == _bits(rc), info={"interp": [np.asarray(a).ravel()[:4].tolist() for a in _tup(ri)], "compiled": [np.asarray(a).ravel()[:4].tolist() for a in _tup(rc)]}, **extra)
    # the Python wrapper in front of the kernel forwards exactly these arguments
    for nt, lay in ((None, "c"), (2, "c"), (None, "f"), (None, "strided")):
        try:
            rw = wrapper_call(kernel, args, nt, lay)
            r.true("Python wrapper == kernel called directly (bit-wise; C-ordered, Fortran-ordered and strided arguments)", _bits(rw) == _bits(rc), info={"wrapper": [np.asarray(a).ravel()[:4].tolist() for a in _tup(rw)], "kernel": [np.asarray(a).ravel()[:4].tolist() for a in _tup(rc)]}, threads=nt, layout=lay, **extra)
        except Exception as e:  # noqa
            r.fail("Python wrapper raised on an input the kernel accepts", repr(e)[:200], "result", threads=nt, layout=lay, **extra)
    rd = defining(kernel, args)
    if kernel == "directional":
        v, c, margin = rd
        f, edges, pos, dirs, tol, bw, sep, est, _ = args
        dist, dvec = ov.euclid(pos)
        masks, _m = ov.direction_masks(dvec, dist, dirs, tol, bw if bw > 0 else None)
        overlap = bool(np.any(masks.sum(axis=0) > 1))
        gap = np.abs(dist[:, None] - edges[None, :])
        if not (0 < margin < 1e-9) and not (sep and overlap) and not np.any((gap > 0) & (gap < 1e-9)):
            r.true("directional kernel == defining sums", bool(np.array_equal(rc[1], c) and np.allclose(rc[0], v, rtol=1e-12, atol=1e-14)), info={"got": np.asarray(rc[0]).tolist(), "exp": v.tolist()}, **extra)
    elif kernel == "unstructured":
        v, c = rd
        f, edges, pos = args[:3]
        dist, _d = ov.euclid(pos)
        gap = np.abs(dist[:, None] - edges[None, :])
        if not np.any((gap > 0) & (gap < 1e-9)):
            r.true("unstructured kernel == defining sums", bool(np.array_equal(rc[1], c) and np.allclose(rc[0], v, rtol=1e-12, atol=1e-14)), info={"got": np.asarray(rc[0]).tolist(), "exp": v.tolist()}, **extra)
    else:
        for a, b in zip(_tup(rc), _tup(rd)):
            a, b = np.asarray(a, dtype=float), np.asarray(b, dtype=float)
            scale = 1.0
            if kernel.startswith("summate"):
                scale = float(np.abs(args[1 if kernel != "summate_fourier" else 2]).sum() + np.abs(args[2 if kernel != "summate_fourier" else 3]).sum()) + 1.0
                if kernel == "summate_fourier":
                    scale *= float(np.abs(args[0]).max() + 1.0) if args[0].size else 1.0
            elif kernel.startswith("calc_field"):
                M, V, c0 = args[0], args[1], args[2]
                scale = float(np.abs(M).sum() * (np.abs(V).max() if V.size else 0.0) * max(np.abs(c0).max() if c0.size else 0.0, np.abs(V).max() if V.size else 0.0)) + 1.0
            ok = a.shape == b.shape and bool(np.all(np.abs(a - b) <= 1e-12 * scale) or (np.isnan(a) == np.isnan(b)).all() and np.allclose(a, b, rtol=1e-10, atol=1e-12 * scale, equal_nan=True))
            r.true("kernel == defining sums", ok, info={"got": a.ravel()[:4].tolist(), "exp": b.ravel()[:4].tolist(), "scale": scale}, **extra)
    return r.done(outcome=[kernel, str(case["shape"])])


RACY = ("for i in __prange__(i_max):\n        for j in range(j_max):", "for i in range(i_max):\n        for j in __prange__(j_max):")


def case_schedule(case):
    r = R()
    kernel = case["kernel"]
    mod = KERNELS[kernel]
    ns, py = interp(mod)
    extra = {"kernel": kernel, "threads": case["T"], "assign": case["assign"]}
    src = py
    if case.get("racy"):
        src = py.replace(*RACY)
        if src == py:
            raise T.Unsupported("negative control: loop pattern for the racy variant not found")
    run, regions = S.make_kernel(src, kernel)
    if case.get("racy"):
        # fixed input on which lost updates are observable: 3 collinear points, all pairs valid, two bins
        fixed = (np.array([[0.0, 1.0, 3.5]]), np.array([0.0, 1.5, 3.0]), np.array([[0.0, 1.0, 2.0]]), "m", "e", None)
        mk = lambda: tuple(a.copy() if isinstance(a, np.ndarray) else a for a in fixed)
    else:
        mk = lambda: tuple(a.copy() if isinstance(a, np.ndarray) else a for a in make_input(kernel, case["shape"], case["seed"], "alphabet"))
    seq = _bits(ns[kernel](*mk()))
    st = S.explore(run, mk, case["T"], case["assign"], case["bound"], max_exec=case.get("max_exec", 4000))
    first = st["first"]
    indep, conflicts = first.independent()
    nout = len(st["outcomes"])
    sub = {"executions": st["executions"], "steps": st["steps"], "scheduling_points": st["points"], "interleavings_represented": S.interleavings(first) if indep else 0, "capped": int(st["capped"])}
    if case.get("racy"):
        # control: the explorer must see the lost updates
        return r.done(outcome=f"racy:{nout}:{indep}", sub=dict(sub, racy_outcomes=nout, racy_detected=int(nout > 1 and not indep)))
    r.true("threads of a parallel loop never touch the same element with a write (footprints independent)", indep, info=conflicts, **extra)
    r.true("every explored interleaving gives the sequential result (bit-wise)", nout == 1 and seq in st["outcomes"], info={"distinct outcomes": nout, "schedule of a deviating outcome": [v for k, v in st["outcomes"].items() if k != seq][:1]}, **extra)
    return r.done(outcome=[kernel, st["executions"], st["points"]], sub=sub)


# ---------------------------------------------------------------------------
_OMP = {}


def build_openmp():
    """compile the generated C sources with -fopenmp into a scratch directory (removed by the caller)"""
    if "dir" in _OMP:
        return _OMP
    scratch = tempfile.mkdtemp(prefix="gsverif.", dir=os.environ.get("TMPDIR", "/tmp"))
    inc = [sysconfig.get_paths()["include"], np.get_include()]
    jobs = []
    for name, sub, ext, cc in (("summator", "field", ".c", "gcc"), ("krigesum", "krige", ".c", "gcc"), ("estimator", "variogram", ".cpp", "g++")):
        csrc = os.path.join(SRC, sub, name + ext)
        out = os.path.join(scratch, name + ".so")
        cmd = [cc, "-O2", "-shared", "-fPIC", "-fopenmp", "-w"] + [f"-I{i}" for i in inc] + [csrc, "-o", out]
        jobs.append((name, sub, out, subprocess.Popen(cmd, stdout=subprocess.PIPE, stderr=subprocess.STDOUT)))
    mods = {}
    for name, sub, out, p in jobs:
        log = p.communicate()[0].decode()[-400:]
        if p.returncode != 0:
            shutil.rmtree(scratch, ignore_errors=True)
            raise Vacuous(f"OpenMP build of {name} failed: {log}")
        full = f"gstools.{sub}.{name}"
        loader = importlib.machinery.ExtensionFileLoader(full, out)
        spec = importlib.util.spec_from_loader(full, loader)
        m = importlib.util.module_from_spec(spec)
        loader.exec_module(m)
        mods[name] = m
    _OMP.update(dir=scratch, mods=mods)
    return _OMP


def case_openmp(case):
    r = R()
    kernel = case["kernel"]
    mod = KERNELS[kernel]
    omp = _OMP["mods"][mod]
    extra = {"kernel": kernel}
    args = make_input(kernel, case["shape"], case["seed"], case["kind"])
    ser = _bits(getattr(CMOD[mod], kernel)(*args))
    outs = {}
    for nt in (None, 1, 2, 3, 4, 8, 16):
        a = args[:-1] + (nt,)
        res = _bits(getattr(omp, kernel)(*a))
        outs[str(nt)] = res == ser
    r.true("OpenMP build bit-identical to the serial artefact for every thread count", all(outs.values()), info=outs, **extra)
    return r.done(outcome=[kernel, str(case["shape"])], sub={"thread_counts": 7})


def case_wrappers(case):
    """wrappers and public callers under config.NUM_THREADS"""
    r = R()
    what = case["what"]
    old = config.NUM_THREADS
    extra = {"entry": what}
    try:
        ref = None
        for nt in (None, 1, 2, 3, 4, 8, 16):
            config.NUM_THREADS = nt
            if what == "summate_wrappers":
                a = make_input("summate", {"dim": 2, "N": 5, "X": 7}, 1)
                b = make_input("summate_fourier", {"dim": 2, "N": 5, "X": 7}, 2)
                out = _bits((genmod._summate(*a[:-1], nt), genmod._summate_incompr(*a[:-1], nt), genmod._summate_fourier(*b[:-1], nt)))
                exp = _bits((c_sum.summate(*a[:-1], None), c_sum.summate_incompr(*a[:-1], None), c_sum.summate_fourier(*b[:-1], None)))
            elif what == "krige_wrappers":
                a = make_input("calc_field_krige", {"M": 4, "X": 9}, 3)
                out = _bits((krigemod._calc_field_krige(*a[:-1], nt),) + tuple(krigemod._calc_field_krige_and_variance(*a[:-1], nt)))
                exp = _bits((c_krig.calc_field_krige(*a[:-1], None),) + tuple(c_krig.calc_field_krige_and_variance(*a[:-1], None)))
            elif what == "vario_wrappers":
                a = make_input("unstructured", {"dim": 2, "X": 6, "F": 2, "B": 3}, 4, "alphabet")
                d = make_input("directional", {"dim": 2, "X": 6, "F": 2, "B": 3}, 5, "alphabet")
                s_ = make_input("ma_structured", {"X": 5, "Y": 3}, 6, "alphabet")
                out = _bits(tuple(vmod._unstructured(a[0], a[1], a[2], estimator_type=a[3], distance_type=a[4], num_threads=nt)) + tuple(vmod._directional(*d[:-1], num_threads=nt)) + (vmod._structured(s_[0], s_[2], nt), vmod._ma_structured(s_[0], s_[1].astype(bool), s_[2], nt)))
                exp = _bits(tuple(c_est.unstructured(*a[:-1], None)) + tuple(c_est.directional(*d[:-1], None)) + (c_est.structured(s_[0], s_[2], None), c_est.ma_structured(s_[0], s_[1].astype(bool), s_[2], None)))
                # the wrapper result equals the defining sums (stacked fields with different NaN patterns)
                dist, _d = ov.euclid(a[2])
                v, c = ov.unstructured(a[0], a[1], dist, a[3])
                got = vmod._unstructured(a[0], a[1], a[2], estimator_type=a[3], distance_type=a[4], num_threads=nt)
                r.true("_unstructured wrapper == defining sums (two fields, different NaN patterns)", bool(np.array_equal(got[1], c) and np.allclose(got[0], v, rtol=1e-12, atol=1e-14)), info={"got": np.asarray(got[1]).tolist(), "exp": c.tolist()}, threads=nt, **extra)
            elif what == "srf_call":
                m = gs.Exponential(dim=2, var=1.3, len_scale=2.0)
                pos = np.random.RandomState(0).uniform(0, 5, size=(2, 11))
                out = _bits((gs.SRF(m, seed=3, mode_no=9)(pos), gs.SRF(m, generator="VectorField", seed=3, mode_no=9)(pos), gs.SRF(m, generator="Fourier", period=7.0, mode_no=4, seed=3)(pos)))
                exp = None
                # the kernels get the positions of *this* request (a request within numpy.allclose of the previous one, too)
                big = pos + np.array([[4.5e5], [5.4e6]])
                s1 = gs.SRF(m, seed=3, mode_no=9)
                s1(big)
                got = np.array(s1(big + 0.5))
                g_ = s1.generator
                iso = m.isometrize(big + 0.5)
                ph = np.array(g_._cov_sample).T @ iso
                ref_sum = np.sqrt(m.var / 9) * (np.array(g_._z_1) @ np.cos(ph) + np.array(g_._z_2) @ np.sin(ph))
                r.close("SRF call == defining sum at the requested positions (second request close to the first)", got, ref_sum, rtol=1e-9, atol=1e-9, threads=nt, **extra)
            elif what == "krige_call":
                m = gs.Exponential(dim=2, var=1.3, len_scale=2.0)
                rng = np.random.RandomState(1)
                cp, cv, tp = rng.uniform(0, 5, size=(2, 6)), rng.normal(size=6), rng.uniform(0, 5, size=(2, case.get("nt", 10)))
                k = gs.krige.Ordinary(m, cp, cv)
                res = []
                for cs in (None, 3, 4, 7, case.get("nt", 10)):
                    f, v = k(tp, chunk_size=cs)
                    res += [f, v]
                    f2 = k(tp, chunk_size=cs, return_var=False)
                    res.append(f2)
                out = _bits(tuple(res))
                exp = None
                # defining sums for the kriging call (dense solve)
                C = m.covariance(np.linalg.norm(cp[:, :, None] - cp[:, None, :], axis=0))
                n = 6
                K = np.zeros((n + 1, n + 1))
                K[:n, :n] = C
                K[n, :n] = K[:n, n] = 1.0
                rhs = np.vstack([m.covariance(np.linalg.norm(cp[:, :, None] - tp[:, None, :], axis=0)), np.ones((1, tp.shape[1]))])
                sol = np.linalg.solve(K, rhs)
                r.close("Krige call == defining sums for every chunk size and thread setting", res[0], sol[:n].T @ cv, rtol=1e-8, atol=1e-9, threads=nt, **extra)
                for i in range(0, len(res), 3):
                    r.close("Krige call independent of chunk size under this thread setting", res[i], res[0], rtol=1e-10, atol=1e-12, threads=nt, **extra)
            elif what == "vario_call":
                rng = np.random.RandomState(2)
                pos = rng.randint(0, 4, size=(2, 9)).astype(float)
                f = rng.normal(size=(2, 9))
                f[0, 2] = np.nan
                f[1, 5] = np.nan
                out = _bits(tuple(gs.vario_estimate(pos, f, [0.0, 1.0, 2.0, 4.5], return_counts=True)) + tuple(gs.vario_estimate(pos, f, [0.0, 1.0, 2.0, 4.5], direction=[[1, 0], [0, 1]], return_counts=True)) + (gs.vario_estimate_axis(f.T, "x"),))
                exp = None
                dist, _d = ov.euclid(pos)
                v, c = ov.unstructured(f, [0.0, 1.0, 2.0, 4.5], dist, "m")
                got = gs.vario_estimate(pos, f, [0.0, 1.0, 2.0, 4.5], return_counts=True)
                r.true("vario_estimate == defining sums under this thread setting", bool(np.array_equal(got[2], c) and np.allclose(got[1], v, rtol=1e-12, atol=1e-14)), threads=nt, **extra)
                # directional call: the search mode handed to the kernel is derived from all direction pairs
                posd = rng.uniform(0, 4, size=(2, 9))
                dist, dvec = ov.euclid(posd)
                for dirs in ([[1.0, 0.0], [0.0, 1.0], [math.cos(0.17), math.sin(0.17)]], [[1.0, 0.0], [0.0, 1.0]], [[1.0, 0.0], [math.cos(0.5), math.sin(0.5)], [0.0, 1.0], [math.cos(2.2), math.sin(2.2)]]):
                    ev, ec, margin = ov.directional(f, [0.0, 1.0, 2.0, 4.5], dist, dvec, dirs, math.pi / 8, None, "m")
                    gd = gs.vario_estimate(posd, f, [0.0, 1.0, 2.0, 4.5], direction=dirs, angles_tol=math.pi / 8, return_counts=True)
                    if not 0 < margin < 1e-9:
                        r.true("directional vario_estimate == defining sums under this thread setting", bool(np.array_equal(gd[2], ec) and np.allclose(gd[1], ev, rtol=1e-12, atol=1e-14)), info={"got": np.asarray(gd[2]).tolist(), "exp": np.asarray(ec).tolist()}, threads=nt, ndirs=len(dirs), **extra)
            if exp is not None:
                r.true("wrapper dispatches to the kernel result", out == exp, threads=nt, **extra)
            if ref is None:
                ref = out
            r.true("result bit-identical for every config.NUM_THREADS", out == ref, threads=nt, **extra)
    finally:
        config.NUM_THREADS = old
    return r.done(outcome=what, sub={"thread_settings": 7})


GROUPS = {"conformance": case_conform, "schedules": case_schedule, "openmp": case_openmp, "wrappers": case_wrappers}


def shapes_for(kernel, tier):
    ext = [0, 1, 2, 3, 5]
    out = []
    if kernel.startswith("summate"):
        for d in (1, 2, 3, 4):
            for N in ext:
                for X in ext:
                    if tier == "quick" and d in (3, 4) and (N in (3,) or X in (3,)):
                        continue
                    out.append({"dim": d, "N": N, "X": X})
    elif kernel.startswith("calc_field"):
        out = [{"M": m, "X": x} for m in ext for x in ext]
    elif kernel in ("unstructured", "directional"):
        for d in (1, 2, 3):
            if kernel == "directional" and d == 1 and tier == "quick":
                continue
            for n in (0, 1, 2, 3, 5):
                for nf in (1, 2):
                    for nb in (1, 2, 4):
                        if tier == "quick" and nf == 2 and nb == 2:
                            continue
                        out.append({"dim": d, "X": n, "F": nf, "B": nb, "D": 2})
    else:
        out = [{"X": n, "Y": m} for n in (1, 2, 3, 5) for m in (0, 1, 2, 3)]
    return out


def run(chk):
    tier, seed = chk.tier, chk.seed
    try:
        for m in PYX:
            interp(m)
    except T.Unsupported as e:
        raise Vacuous(f"unsupported construct in the .pyx sources: {e}")
    cc = []
    for kernel in KERNELS:
        for shp in shapes_for(kernel, tier):
            for kind in ("alphabet", "normal") + (("tiny",) if kernel.startswith(("summate", "calc_field")) else ()):
                for s in range(2 if tier == "quick" else 6):
                    cc.append({"kernel": kernel, "shape": shp, "seed": 10 * seed + s, "kind": kind})
    chk.run("conformance", case_conform, cc, rule="9 kernels x array extents from {0,1,2,3,5} per axis (dims 1-4) x value kinds {alphabet 0,+-1,.5,1e+-8,NaN / normal / tiny amplitudes 1e-17, 3e-16, 1e-300} x seeds: interpreted current .pyx == installed compiled artefact bit-wise == Python wrapper (num_threads None, 2) bit-wise == independent defining sums", chunk=16)
    sc = []
    tiny = {
        "summate": [{"dim": 1, "N": 1, "X": 2}, {"dim": 2, "N": 2, "X": 3}, {"dim": 1, "N": 1, "X": 5}],
        "summate_fourier": [{"dim": 1, "N": 1, "X": 2}, {"dim": 2, "N": 2, "X": 3}],
        "calc_field_krige": [{"M": 1, "X": 2}, {"M": 2, "X": 3}],
        "calc_field_krige_and_variance": [{"M": 1, "X": 2}, {"M": 2, "X": 3}],
        "unstructured": [{"dim": 1, "X": 3, "F": 1, "B": 2}, {"dim": 2, "X": 3, "F": 2, "B": 2}, {"dim": 1, "X": 4, "F": 1, "B": 4}],
        "directional": [{"dim": 2, "X": 3, "F": 1, "B": 2, "D": 2}, {"dim": 2, "X": 3, "F": 1, "B": 4, "D": 1}],
        "structured": [{"X": 3, "Y": 1}, {"X": 3, "Y": 2}, {"X": 5, "Y": 1}],
        "ma_structured": [{"X": 3, "Y": 1}, {"X": 3, "Y": 2}],
    }
    for kernel, shapes in tiny.items():
        for i, shp in enumerate(shapes):
            for Tn in (2, 3):
                for assign in ("block", "cyclic"):
                    sc.append({"kernel": kernel, "shape": shp, "seed": seed + i, "T": Tn, "assign": assign, "bound": 2 if i == 0 or tier != "quick" else 1, "max_exec": 4000 if tier == "quick" else 40000})
    if tier != "quick":
        # deeper: the smallest shape of every kernel with 3 preemptions and with 4 model threads
        for kernel, shapes in tiny.items():
            for Tn, bnd in ((2, 3), (3, 3), (4, 2)):
                for assign in ("block", "cyclic"):
                    sc.append({"kernel": kernel, "shape": shapes[0], "seed": seed, "T": Tn, "assign": assign, "bound": bnd, "max_exec": 200000})
    sc.append({"kernel": "unstructured", "shape": {"dim": 1, "X": 3, "F": 1, "B": 2}, "seed": seed, "T": 2, "assign": "block", "bound": 2, "racy": True})
    sc.append({"kernel": "unstructured", "shape": {"dim": 2, "X": 3, "F": 2, "B": 2}, "seed": seed, "T": 3, "assign": "cyclic", "bound": 1, "racy": True})
    cases, results = chk.run("schedules", case_schedule, sc, rule="8 parallel kernels x tiny shapes x T in {2,3} (thorough also 4) x {static block, cyclic} iteration assignment: all schedules up to 2 preemptions (thorough: 3 on the smallest shape of every kernel) executed on the translated source (read and write of every shared written element are scheduling points), outcome compared bit-wise with the sequential result; footprint independence => all interleavings equivalent; racy variant of 'unstructured' as negative control", chunk=1, min_outcomes=2)
    sub = chk.groups["schedules"]["sub"]
    chk.control("explorer finds lost updates in a racy kernel variant (prange moved to the pair loop)", sub.get("racy_detected", 0) >= 2, info=f"racy variants detected: {sub.get('racy_detected', 0)} of 2, distinct outcomes {sub.get('racy_outcomes', 0)}")
    chk.states += int(sub.get("executions", 0))
    chk.transitions += int(sub.get("steps", 0))
    chk.traces += int(sub.get("executions", 0))
    chk.extra_cov["schedule_exploration"] = {"executions": int(sub.get("executions", 0)), "interleavings_represented_by_independence": int(sub.get("interleavings_represented", 0)), "capped_runs": int(sub.get("capped", 0)), "preemption_bound": {"all shapes": 2 if tier != "quick" else "2 on the smallest shape of every kernel, 1 on the others", "smallest shapes": 3 if tier != "quick" else 2}, "model_threads": [2, 3] + ([4] if tier != "quick" else [])}
    try:
        omp = build_openmp()
        oc = []
        for kernel in KERNELS:
            shp = shapes_for(kernel, "quick")
            sel = shp[:: max(1, len(shp) // (6 if tier == "quick" else 30))]
            big = {"summate": [{"dim": 3, "N": 17, "X": 1000}, {"dim": 2, "N": 100, "X": 4097}], "summate_incompr": [{"dim": 3, "N": 17, "X": 1000}], "summate_fourier": [{"dim": 2, "N": 64, "X": 4097}], "calc_field_krige": [{"M": 17, "X": 4097}], "calc_field_krige_and_variance": [{"M": 17, "X": 4097}], "unstructured": [{"dim": 2, "X": 200, "F": 2, "B": 4}], "directional": [{"dim": 2, "X": 100, "F": 1, "B": 4, "D": 2}], "structured": [{"X": 100, "Y": 17}], "ma_structured": [{"X": 100, "Y": 17}]}[kernel]
            for s_ in sel + big:
                for kind in ("normal", "alphabet"):
                    oc.append({"kernel": kernel, "shape": s_, "seed": seed, "kind": kind})
        chk.run("openmp", case_openmp, oc, rule="OpenMP build of the generated C (gcc -O2 -fopenmp) vs serial artefact: bit-identical for num_threads in {None,1,2,3,4,8,16} on small and large (17 / 1000 / 4097) shapes", nproc=1)
    finally:
        if "dir" in _OMP:
            shutil.rmtree(_OMP["dir"], ignore_errors=True)
    wc = [{"what": w} for w in ("summate_wrappers", "krige_wrappers", "vario_wrappers", "srf_call", "krige_call", "vario_call")] + [{"what": "krige_call", "nt": n} for n in (1, 2, 5, 13, 100, 1001)]
    chk.run("wrappers", case_wrappers, wc, rule="Python wrappers (_summate*, _calc_field_krige*, _unstructured, _directional, _structured, _ma_structured) and public callers (SRF, Krige with chunk sizes, vario_estimate, vario_estimate_axis) under config.NUM_THREADS in {None,1,2,3,4,8,16}: bit-identical and equal to the kernel / defining sums", nproc=1, min_outcomes=2)
    chk.assume("the schedule model is sequentially consistent with scheduling points at every read and write of elements of arrays written inside the parallel loop; weak-memory behaviour of racy code is not modelled (a race is already a violation)")
    chk.assume("no Cython in this sandbox: the OpenMP build is made from the generated C on disk; an edited .pyx is judged by its interpretation and by the artefact comparison (artefact != source is reported)")
