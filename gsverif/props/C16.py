"""C16 - vector fields from isotropic models are incompressible.

The vector field is a finite trigonometric sum with known wave vectors.  For every
enumerated (model x dim x mode number x seed x mean velocity) the per-mode vector amplitudes
are *solved* from the public output on a point set (exactly determined linear system,
conditioning checked); then k_j . A_j = k_j . B_j = 0 is equivalent to zero divergence at
*every* point, the constant term is the mean velocity along e_1, and the amplitudes equal
the documented projector times mean_u * sqrt(var/N) * z.  Second, API-only: central finite
differences at displaced points below the computable truncation bound.  The variance split
is an exact per-seed identity plus the law of the sampled directions over a complete seed
window (6 sigma).
"""
import itertools
import math
import warnings

import numpy as np

import gstools as gs

from ..core import R, generic_values

LEVEL = "exploration"
warnings.simplefilter("ignore")

OPTS = {"Matern": {"nu": 1.5}, "Stable": {"alpha": 1.5}, "Rational": {"alpha": 2.0}, "Integral": {"nu": 2.0}, "TPLGaussian": {"hurst": 0.5}, "TPLExponential": {"hurst": 0.4}, "TPLStable": {"hurst": 0.5, "alpha": 1.5}, "SuperSpherical": {"nu": 2.0}, "JBessel": {"nu": 2.0}, "TPLSimple": {"nu": 3.0}}


def make(case):
    kw = dict(dim=case["dim"], var=case.get("var", 1.7), len_scale=2.0)
    if case.get("angles"):
        kw["angles"] = case["angles"]
    kw.update(OPTS.get(case["cls"], {}))
    m = getattr(gs, case["cls"])(**kw)
    srf = gs.SRF(m, generator="VectorField", mode_no=case["mode_no"], seed=case["seed"], mean_velocity=case["mean_velocity"], sampling=case.get("sampling", "auto"))
    return m, srf


def case_modes(case):
    r = R()
    d, N, mv = case["dim"], case["mode_no"], case["mean_velocity"]
    m, srf = make(case)
    extra = {"cls": case["cls"], "dim": d, "rotated": bool(case.get("angles"))}
    g = srf.generator
    k = np.array(g._cov_sample, dtype=float)  # (d, N) wave vectors of the modes
    if not np.all(np.isfinite(k)) or np.any(np.linalg.norm(k, axis=0) > 40.0 / 2.0) or np.any(np.linalg.norm(k, axis=0) < 1e-3):
        return r.done(skip="wave number outside the range in which amplitudes can be resolved on the point set")
    rng = np.random.RandomState(99)
    M = 6 * N + 12
    X = rng.uniform(-6.0, 6.0, size=(d, M))
    U = np.array(srf(X), dtype=float)  # (d, M) public output
    r.eq("vector field has one component per dimension", U.shape, (d, M), **extra)
    # isometrized positions (rotation of an 'isotropic' model) enter the phases
    Xi = m.isometrize(X)
    ph = k.T @ Xi  # (N, M)
    D = np.vstack([np.cos(ph), np.sin(ph), np.ones((1, M))]).T  # (M, 2N+1)
    sv = np.linalg.svd(D, compute_uv=False)
    if sv[-1] < 1e-7 * sv[0]:
        return r.done(skip="mode design matrix ill conditioned on the point set (nearly equal wave vectors)")
    coef, res, rk, _ = np.linalg.lstsq(D, U.T, rcond=None)  # (2N+1, d)
    fit = D @ coef
    amp = abs(mv) * math.sqrt(m.var / N) * (np.abs(g._z_1).max() + np.abs(g._z_2).max()) + abs(mv) + 1e-12
    r.close("field is a trigonometric sum over the generator's wave vectors plus a constant", fit.T, U, rtol=0, atol=1e-8 * amp, **extra)
    A, B, c = coef[:N].T, coef[N : 2 * N].T, coef[2 * N]  # (d, N), (d, N), (d,)
    tol = 1e-7 * amp * max(1.0, sv[0] / sv[-1] * 1e-6)
    # divergence-free at every point  <=>  k_j . A_j = k_j . B_j = 0 for every mode
    # (positions enter through the isometrized coordinates: the physical wave vector is R k)
    kphys = m.isometrize(np.eye(d)).T @ k if case.get("angles") else k  # phase k.(R^T x) = (R k).x
    dA = np.einsum("dj,dj->j", kphys, A)
    dB = np.einsum("dj,dj->j", kphys, B)
    r.close("every mode is solenoidal: k_j . A_j == 0 (divergence-free everywhere)", dA, np.zeros(N), rtol=0, atol=tol * np.linalg.norm(k, axis=0).max(), **extra)
    r.close("every mode is solenoidal: k_j . B_j == 0 (divergence-free everywhere)", dB, np.zeros(N), rtol=0, atol=tol * np.linalg.norm(k, axis=0).max(), **extra)
    e1 = np.zeros(d)
    e1[0] = 1.0
    r.close("mean of the field == mean velocity along the first axis, zero in the others", c, mv * e1, rtol=0, atol=tol, **extra)
    # amplitudes == documented projector x mean_u sqrt(var/N) z
    proj = e1[:, None] - k * k[0][None, :] / (k * k).sum(axis=0)[None, :]
    fac = mv * math.sqrt(m.var / N)
    r.close("cos-amplitudes == mean_u sqrt(var/N) z_1 p(k)", A, fac * proj * g._z_1[None, :], rtol=0, atol=tol, **extra)
    r.close("sin-amplitudes == mean_u sqrt(var/N) z_2 p(k)", B, fac * proj * g._z_2[None, :], rtol=0, atol=tol, **extra)
    # exact per-seed variance identity: spatial variance of component i = sum_j (A_ij^2 + B_ij^2) / 2
    exp_var = 0.5 * fac**2 * (proj**2 * (g._z_1**2 + g._z_2**2)[None, :]).sum(axis=1)
    r.close("component variances == (mean_u^2 var / N) sum_j p_i(k_j)^2 (z_1j^2 + z_2j^2)/2", 0.5 * (A**2 + B**2).sum(axis=1), exp_var, rtol=1e-6, atol=tol * amp, **extra)
    # API-only: central finite-difference divergence at displaced points below the truncation bound
    h = 1e-3
    Y = rng.uniform(-5.0, 5.0, size=(d, 7)) + 0.123
    div = np.zeros(Y.shape[1])
    for i in range(d):
        e = np.zeros((d, 1))
        e[i] = h
        div += (np.array(srf(Y + e))[i] - np.array(srf(Y - e))[i]) / (2 * h)
    kn = np.linalg.norm(k, axis=0)
    bound = h**2 / 6 * (kn**3 * (np.linalg.norm(A, axis=0) + np.linalg.norm(B, axis=0))).sum() * d + 1e-9 * amp / h
    r.true("finite-difference divergence at displaced points below the truncation bound", bool(np.all(np.abs(div) <= bound)), info={"div": np.abs(div).max(), "bound": bound}, **extra)
    # structured mesh gives the same vector field
    ax = [np.array([0.0, 1.3, 2.1]), np.array([-0.7, 0.4]), np.array([0.2, 1.9])][:d]
    gpts = np.array([a.ravel() for a in np.meshgrid(*ax, indexing="ij")])
    r.close("structured vector field == unstructured at the grid points", np.array(srf.structured(ax)).reshape(d, -1), np.array(srf(gpts)), rtol=1e-12, atol=1e-13, **extra)
    # the vector at a point does not depend on how many points are requested with it (1 .. dim + 2 points,
    # i.e. also position arrays that happen to be square)
    for k_ in range(1, d + 3):
        for off in (0, 3):
            sub = np.ascontiguousarray(X[:, off : off + k_])
            r.close("vector at a point independent of the number of points requested together", np.array(srf(sub)), U[:, off : off + k_], rtol=1e-12, atol=1e-13, npoints=k_, **extra)
    # degenerate requests: the origin alone (every coordinate zero), several coincident points there, a point on
    # a coordinate axis - the defining sum at these points
    u0 = mv * e1 + (fac * proj * g._z_1[None, :]).sum(axis=1)
    for req in (np.zeros((d, 1)), np.zeros((d, 3))):
        r.close("request consisting of the origin only == defining sum at 0", np.array(srf(req)), np.repeat(u0[:, None], req.shape[1], axis=1), rtol=0, atol=max(tol, 1e-12), npoints=req.shape[1], **extra)
    r.close("request of the origin as a tuple of scalars == defining sum at 0", np.array(srf(tuple(0.0 for _ in range(d)))).reshape(d), u0, rtol=0, atol=max(tol, 1e-12), **extra)
    onax = np.zeros((d, 2))
    onax[d - 1, 1] = 1.7
    ph_ = k.T @ m.isometrize(onax)
    r.close("request of the origin and a point on the last axis == defining sum", np.array(srf(onax)), (mv * e1)[:, None] + (fac * proj * g._z_1[None, :]) @ np.cos(ph_) + (fac * proj * g._z_2[None, :]) @ np.sin(ph_), rtol=0, atol=max(tol, 1e-12), **extra)
    # a second request at positions that agree with the first within numpy.allclose is answered at the new positions
    far = X + np.array([4.5e5, 5.4e6, 120.0])[:d, None]
    u_far0 = np.array(srf(far))
    far2 = far + 0.5  # 0.5 is inside the relative tolerance of the large coordinates
    r.close("request at positions within numpy.allclose of the previous ones is evaluated at the new positions", np.array(srf(far2)), np.array(gs.SRF(m, generator="VectorField", mode_no=N, seed=case["seed"], mean_velocity=mv, sampling=case.get("sampling", "auto"))(far2)), rtol=1e-9, atol=1e-9 * amp, **extra)
    # the same field on a meshio mesh: point data and (default) cell data per cell block
    import meshio

    mp = np.zeros((8, 3))
    mp[:, :d] = X[:, :8].T
    blocks = [("triangle", np.array([[0, 1, 2], [2, 3, 4], [1, 3, 5]])), ("quad", np.array([[0, 1, 3, 4], [2, 5, 6, 7]]))] if d == 2 else [("tetra", np.array([[0, 1, 2, 3], [2, 3, 4, 5], [1, 4, 6, 7]])), ("pyramid", np.array([[0, 2, 4, 6, 7]]))]
    mesh = meshio.Mesh(mp, blocks)
    direction = "xy" if d == 2 else "all"
    srf.mesh(mesh, points="points", direction=direction, name="u")
    r.close("vector field stored as meshio point data == field at the mesh points (points x components)", np.array(mesh.point_data["u"]), U[:, :8].T, rtol=1e-12, atol=1e-13, **extra)
    srf.mesh(mesh, direction=direction, name="uc")
    # axis letters in another order: the first letter is the first field axis (the mean-flow axis)
    dstr = "yx" if d == 2 else "zxy"
    sel = ["xyz".index(c_) for c_ in dstr]
    srf.mesh(mesh, points="points", direction=dstr, name="uperm")
    r.close("mesh(direction=<letters in another order>) == field at the coordinates taken in that order", np.array(mesh.point_data["uperm"]), np.array(srf(mp.T[sel])).T, rtol=1e-12, atol=1e-13, direction=dstr, **extra)
    for bi, (ctype, conn) in enumerate(blocks):
        cen = np.array([mp[c].mean(axis=0) for c in conn]).T[:d]
        r.close("vector field stored as meshio cell data == field at the centroids of that block (cells x components)", np.array(mesh.cell_data["uc"][bi]), np.array(srf(cen)).T, rtol=1e-12, atol=1e-13, block=ctype, **extra)
    return r.done(outcome=[round(float(x), 9) for x in U.ravel()[:3]])


HOPS = [
    {"k": "call"},
    {"k": "mode_no", "v": 4},
    {"k": "mode_no", "v": 16},
    {"k": "dim", "v": 2},
    {"k": "dim", "v": 3},
    {"k": "len", "v": 3.0},
    {"k": "assign_var", "v": 0.8},
    {"k": "mean_u", "v": 0.3},
    {"k": "seed", "v": 77},
]


def case_history(case):
    """a vector-field generator that was used and then changed (fewer / more modes, model dimension or
    length scale in place, model re-assignment, mean velocity, seed) produces the field of a freshly
    built generator with the final settings: divergence-free, same mean, same variance identity"""
    r = R()
    st = {"dim": case["dim"], "mode_no": 8, "seed": case["seed"], "mv": 1.0, "len": 2.0, "var": 1.7}
    kw = OPTS.get(case["cls"], {})
    # "aniso_start": the object is first used with an anisotropic model (stretched positions); one operation of the
    # history makes the model isotropic again
    st["anis"] = [0.5, 0.7][: st["dim"] - 1] if case.get("aniso_start") else None
    m = getattr(gs, case["cls"])(dim=st["dim"], var=st["var"], len_scale=st["len"], **kw, **({"anis": st["anis"]} if st["anis"] else {}))
    srf = gs.SRF(m, generator="VectorField", mode_no=st["mode_no"], seed=st["seed"], mean_velocity=st["mv"])
    rng = np.random.RandomState(4)
    srf(rng.uniform(-3, 3, size=(st["dim"], 5)))
    for op in case["hist"]:
        k = op["k"]
        if k == "call":
            srf(rng.uniform(-3, 3, size=(st["dim"], 4)))
        elif k == "mode_no":
            srf.generator.mode_no = op["v"]
            st["mode_no"] = op["v"]
        elif k == "dim":
            if op["v"] == st["dim"]:
                return r.done(skip="dimension unchanged")
            srf.model.dim = op["v"]
            st["dim"] = op["v"]
        elif k == "len":
            srf.model.len_scale = op["v"]
            st["len"] = op["v"]
        elif k == "iso":
            if op["how"] == "integral_scale":
                srf.model.integral_scale = [op["v"]] * st["dim"]
            elif op["how"] == "len_list":
                srf.model.len_scale = [op["v"]] * st["dim"]
            else:
                srf.model.anis = 1.0
            st["len"] = float(srf.model.len_scale)
            st["anis"] = None
            r.true("model is isotropic after the assignment", bool(srf.model.is_isotropic), how=op["how"])
        elif k == "assign_var":
            srf.model = getattr(gs, case["cls"])(dim=st["dim"], var=op["v"], len_scale=st["len"], **kw)
            st["var"] = op["v"]
        elif k == "mean_u":
            srf.generator.mean_u = op["v"]
            st["mv"] = op["v"]
        elif k == "seed":
            srf.generator.seed = op["v"]
            st["seed"] = op["v"]
    d = st["dim"]
    extra = {"cls": case["cls"], "dim": d, "last": case["hist"][-1]["k"]}
    fm = getattr(gs, case["cls"])(dim=d, var=st["var"], len_scale=st["len"], **kw, **({"anis": st["anis"]} if st["anis"] else {}))
    fresh = gs.SRF(fm, generator="VectorField", mode_no=st["mode_no"], seed=st["seed"], mean_velocity=st["mv"])
    X = rng.uniform(-6, 6, size=(d, 12))
    U, V = np.array(srf(X), dtype=float), np.array(fresh(X), dtype=float)
    r.eq("vector field has one component per dimension", U.shape, (d, 12), **extra)
    if U.shape == V.shape:
        r.close("field after the history == field of a freshly built generator with the final settings", U, V, rtol=1e-10, atol=1e-11, **extra)
    # API-only divergence of the object under test (central differences; bound from the fresh generator's modes)
    g = fresh.generator
    kv = np.array(g._cov_sample, dtype=float)
    kn = np.linalg.norm(kv, axis=0)
    if np.all(np.isfinite(kn)) and kn.max() < 40.0 and st["anis"] is None:
        h = 1e-3
        amp = abs(st["mv"]) * math.sqrt(st["var"] / st["mode_no"]) * (np.abs(g._z_1) + np.abs(g._z_2))
        div = np.zeros(X.shape[1])
        for i in range(d):
            e = np.zeros((d, 1))
            e[i] = h
            div += (np.array(srf(X + e))[i] - np.array(srf(X - e))[i]) / (2 * h)
        bound = h**2 / 6 * (kn**3 * amp).sum() * d * 2 + 1e-9 * (amp.sum() + abs(st["mv"]) + 1e-12) / h
        r.true("after the history: finite-difference divergence below the truncation bound", bool(np.all(np.abs(div) <= bound)), info={"div": float(np.abs(div).max()), "bound": float(bound)}, **extra)
    return r.done(outcome=[round(float(x), 9) for x in V.ravel()[:3]])


def case_law(case):
    """law of the projected directions over the complete seed window"""
    r = R()
    d, N = case["dim"], case["mode_no"]
    acc = np.zeros(d)
    acc2 = np.zeros(d)
    u1 = np.zeros(d)
    u2 = np.zeros((d, d))
    u22 = np.zeros((d, d))
    n = 0
    for s in range(case["seed0"], case["seed0"] + case["nseeds"]):
        m = getattr(gs, case["cls"])(dim=d, var=1.0, len_scale=2.0, **OPTS.get(case["cls"], {}))
        g = gs.field.generator.IncomprRandMeth(m, mode_no=N, seed=s)
        k = np.array(g._cov_sample)
        proj = -k * k[0][None, :] / (k * k).sum(axis=0)[None, :]
        proj[0] += 1.0
        u = k / np.sqrt((k * k).sum(axis=0))[None, :]  # unit wave vectors
        u1 += u.sum(axis=1)
        uu = u[:, None, :] * u[None, :, :]
        u2 += uu.sum(axis=2)
        u22 += (uu**2).sum(axis=2)
        p2 = proj**2
        acc += p2.sum(axis=1)
        acc2 += (p2**2).sum(axis=1)
        n += N
    mean = acc / n
    expect = np.array([3 / 8, 1 / 8]) if d == 2 else np.array([8 / 15, 1 / 15, 1 / 15])
    # exact variances of p_i^2 under uniform directions
    if d == 2:
        var = np.array([35 / 128 - (3 / 8) ** 2, 3 / 128 - (1 / 8) ** 2])
    else:
        var = np.array([128 / 315 - (8 / 15) ** 2, 1 / 105 * 1.0 - (1 / 15) ** 2 if False else np.nan, np.nan])
        var[1:] = (acc2[1:] / n) - mean[1:] ** 2  # empirical second moment for the transversal components
    sig = np.sqrt(var / n)
    for i in range(d):
        r.true("component variances split as implied by projecting an isotropic spectrum (pooled direction average within 6 sigma)", abs(mean[i] - expect[i]) <= 6 * sig[i], info={"mean": float(mean[i]), "expected": float(expect[i]), "sigma": float(sig[i])}, comp=i, cls=case["cls"], dim=d)
    # the directions themselves: first and second moments of a uniform direction (E u = 0, E u u^T = I / d)
    ex = {"cls": case["cls"], "dim": d, "mode_no": N}
    r.true("mean wave-vector direction == 0 (6 sigma)", bool(np.all(np.abs(u1 / n) <= 6 * math.sqrt(1.0 / d / n))), info=(u1 / n).tolist(), **ex)
    m2 = u2 / n
    s2 = np.sqrt(np.maximum(u22 / n - m2**2, 1e-12) / n)
    r.true("second moments of the wave-vector direction == identity / dim (6 sigma, every entry)", bool(np.all(np.abs(m2 - np.eye(d) / d) <= 6 * s2 + 1e-12)), info=m2.tolist(), **ex)
    r.close("sum of the split == E|p|^2 = 1 - E[k_1^2/k^2] = (d-1)/d", mean.sum(), (d - 1) / d, rtol=0, atol=6 * float(np.sqrt((sig**2).sum())) + 1e-12, cls=case["cls"], dim=d)
    return r.done(outcome=[round(float(x), 6) for x in mean])


GROUPS = {"history": case_history, "modes": case_modes, "direction_law": case_law}

CLASSES_2D = ["Gaussian", "Exponential", "Matern", "Stable", "Rational", "Integral", "Cubic", "Circular", "Spherical", "HyperSpherical", "SuperSpherical", "JBessel", "TPLSimple", "TPLGaussian", "TPLExponential", "TPLStable"]
CLASSES_3D = [c for c in CLASSES_2D if c != "Circular"]


def run(chk):
    tier, seed = chk.tier, chk.seed
    fast = ["Gaussian", "Exponential", "Matern", "Rational", "Integral", "JBessel", "TPLGaussian", "TPLExponential"]
    mc = []
    for d, classes in ((2, CLASSES_2D), (3, CLASSES_3D)):
        for cls in classes:
            if tier == "quick" and cls not in fast and cls not in ("Stable", "Spherical", "TPLSimple"):
                continue
            slow = cls not in fast
            for N in ((1, 2, 3, 8) if not slow else (2, 3)):
                for s in (range(0, 4) if tier == "quick" else range(0, 32)):
                    if slow and s > (0 if tier == "quick" else 3):
                        continue
                    for mv in (1.0, 0.3, -2.0, 0.0):
                        if mv != 1.0 and (s > 0 or N not in (2, 3)):
                            continue
                        mc.append({"cls": cls, "dim": d, "mode_no": N, "seed": s + 32 * seed, "mean_velocity": mv})
        for ang in ([0.7], [0.7, 0.2, -0.5]):
            mc.append({"cls": "Gaussian", "dim": d, "mode_no": 3, "seed": 1, "mean_velocity": 1.0, "angles": ang[: d * (d - 1) // 2]})
    chk.run("modes", case_modes, mc, rule="model class (all valid in dim 2 / 3) x dim x mode_no {1,2,3,8} x seeds x mean_velocity {1, .3, -2, 0} (+ a rotated isotropic model): mode amplitudes solved from the public output, solenoidal condition per mode, mean, projector identity, exact variance identity, finite-difference divergence, structured mesh", max_skip_frac=0.6, chunk=4)
    hc = []
    for cls in (["Gaussian", "Exponential"] if tier == "quick" else ["Gaussian", "Exponential", "Matern", "Stable"]):
        for d in (2, 3):
            for L in (1, 2) if tier == "quick" else (1, 2, 3):
                for hist in itertools.product(HOPS, repeat=L):
                    if hist[-1]["k"] == "call":
                        continue
                    hc.append({"cls": cls, "dim": d, "seed": 5 + 32 * seed, "hist": list(hist)})
            iso_ops = [{"k": "iso", "how": "integral_scale", "v": 1.6}, {"k": "iso", "how": "len_list", "v": 2.4}, {"k": "iso", "how": "anis"}]
            plain = [o for o in HOPS if o["k"] not in ("dim", "assign_var")]
            for io in iso_ops:
                hc.append({"cls": cls, "dim": d, "seed": 5 + 32 * seed, "hist": [io], "aniso_start": True})
                for o in plain:
                    hc.append({"cls": cls, "dim": d, "seed": 5 + 32 * seed, "hist": [io, o], "aniso_start": True})
                    hc.append({"cls": cls, "dim": d, "seed": 5 + 32 * seed, "hist": [o, io], "aniso_start": True})
    chk.run("history", case_history, hc, rule="model x dim x every history of length <= 2 (thorough 3) over {call, mode_no := 4 | 16 (from 8), model.dim := 2 | 3 in place, model.len_scale in place, model re-assignment, mean velocity, seed}, and histories that start with an anisotropic model and make it isotropic (integral_scale list, len_scale list, anis := 1) combined with one more operation: the object was used before; field equals a freshly built generator with the final settings and is divergence-free", chunk=8, max_skip_frac=0.5)
    lc = [{"cls": c, "dim": d, "mode_no": N_, "seed0": 64 * seed, "nseeds": (32 if tier == "quick" else 256) * 64 // N_} for d in (2, 3) for c in ["Gaussian", "Exponential"] for N_ in (4, 16, 63)]
    lc += [{"cls": c, "dim": d, "mode_no": 64, "seed0": 64 * seed, "nseeds": 32 if tier == "quick" else 256} for d in (2, 3) for c in (["Gaussian", "Exponential"] if tier == "quick" else ["Gaussian", "Exponential", "Matern", "Rational"])]
    chk.run("direction_law", case_law, lc, rule="complete seed window (32 quick / 256 thorough seeds x 64 modes; also 4, 16 and 63 modes per generator with correspondingly more seeds): pooled average of the squared projector components against (3/8, 1/8) in 2-D and (8/15, 1/15, 1/15) in 3-D with 6-sigma acceptance", nproc=8)
    chk.assume("wave vectors are read from the generator's documented sample array; configurations whose design matrix of modes is ill conditioned on the point set (nearly coincident wave vectors, |k| > 20) are skipped by a counted guard")
    chk.assume("the variance split is an exact per-seed identity plus a statistical statement about the sampled directions over a complete, finite seed window (6 sigma: false-alarm probability per comparison < 2e-9)")
