"""C17 - Fourier-generated fields are exactly periodic.

(I) full product model x dim x anisotropy x rotation x period x mode counts x seed: shifting
    the evaluation points by +-1, +-2 periods along each main axis reproduces the field;
    a half-period shift must not (negative control against a vacuous check).
(H) BFS over update histories of period / mode_no / model (gsverif.genhist): periodicity for
    the *current* settings and equality with a fresh generator after every call.
"""
import itertools
import warnings

import numpy as np

import gstools as gs

from .. import genhist
from ..core import R, generic_values, product_cases

LEVEL = "model_checking"
warnings.simplefilter("ignore")


def case_periodic(case):
    r = R()
    d = case["dim"]
    ref = {
        "cls": case["cls"],
        "dim": d,
        "var": 1.7,
        "len_scale": case["len_scale"],
        "anis": list(case["anis"])[: d - 1],
        "angles": list(case["angles"])[: d * (d - 1) // 2],
        "nugget": 0.0,
        "opt": {"nu": 1.5} if case["cls"] == "Matern" else {},
    }
    period = genhist._fill(case["period"], d)
    mode_no = [int(x) for x in genhist._fill(case["mode_no"], d)]
    m = genhist.make_model(ref)
    srf = gs.SRF(m, generator="Fourier", period=case["period"], mode_no=case["mode_no"], seed=case["seed"])
    rng = np.random.RandomState(11)
    lat = np.array(list(itertools.product(*[[0.0, 0.37 * period[i]] for i in range(d)]))).T
    gen = rng.uniform(-1.0, 1.0, size=(d, 3)) * np.array(period)[:, None]
    pos = np.concatenate([lat, gen], axis=1)
    base = np.array(srf(pos), dtype=float)
    A = genhist.main_axes(ref)
    amp = float(np.sqrt(ref["var"]))
    r.true("field finite and not identically zero", bool(np.all(np.isfinite(base)) and np.ptp(base) > 1e-6 * amp), info=base[:3].tolist())
    r.eq("generator.mode_no == requested (even) mode counts", [int(x) for x in np.atleast_1d(srf.generator.mode_no)], mode_no)
    r.eq("number of modes == product of the mode counts", int(np.shape(srf.generator.modes)[1]), int(np.prod(mode_no)))
    half_same = 0
    for i in range(d):
        for mult in (1.0, -1.0, 2.0, -2.0):
            sh = pos + (mult * period[i] * A[:, i])[:, None]
            r.close("f(x + n * period_i * axis_i) == f(x)", np.array(srf(sh), dtype=float), base, rtol=1e-9, atol=1e-9 * amp * np.sqrt(np.prod(mode_no)), axis=i, mult=mult)
        hv = np.array(srf(pos + (0.5 * period[i] * A[:, i])[:, None]), dtype=float)
        half_same += int(np.allclose(hv, base, rtol=1e-6, atol=1e-6 * amp))
    if not np.any(np.abs(ref["angles"]) > 0):
        # unrotated model: the main axes are the coordinate axes
        for i in range(d):
            e = np.zeros(d)
            e[i] = period[i]
            r.close("unrotated: f(x + period_i e_i) == f(x)", np.array(srf(pos + e[:, None]), dtype=float), base, rtol=1e-9, atol=1e-9 * amp * np.sqrt(np.prod(mode_no)), axis=i)
    # combined shift along all axes
    tot = sum(period[i] * A[:, i] for i in range(d))
    r.close("f(x + sum_i period_i axis_i) == f(x)", np.array(srf(pos + tot[:, None]), dtype=float), base, rtol=1e-9, atol=1e-9 * amp * np.sqrt(np.prod(mode_no)))
    # a single anisotropy ratio changed in place (dim 3: the other one stays): periodic for the new setting and
    # equal to a freshly built generator
    if d == 3:
        srf_s = gs.SRF(genhist.make_model(ref), generator="Fourier", period=case["period"], mode_no=case["mode_no"], seed=case["seed"])
        srf_s(pos)
        ref_s = dict(ref, anis=[ref["anis"][0], 1.7 if abs(ref["anis"][1] - 1.7) > 1e-9 else 0.6])
        srf_s.model.anis = ref_s["anis"]
        bs = np.array(srf_s(pos), dtype=float)
        fresh_s = gs.SRF(genhist.make_model(ref_s), generator="Fourier", period=case["period"], mode_no=case["mode_no"], seed=case["seed"])
        r.close("after changing one anisotropy ratio in place: field == freshly built generator", bs, np.array(fresh_s(pos), dtype=float), rtol=1e-9, atol=1e-9 * amp * np.sqrt(np.prod(mode_no)))
        As = genhist.main_axes(ref_s)
        for i in range(d):
            sh = pos + (period[i] * As[:, i])[:, None]
            r.close("after changing one anisotropy ratio in place: f(x + period_i * axis_i) == f(x)", np.array(srf_s(sh), dtype=float), bs, rtol=1e-9, atol=1e-9 * amp * np.sqrt(np.prod(mode_no)), axis=i)
    # one model change (length scale only: period, mode counts and anisotropy stay): still periodic
    srf.model.len_scale = 1.37 * ref["len_scale"]
    base2 = np.array(srf(pos), dtype=float)
    r.true("model change takes effect", not np.allclose(base2, base, rtol=1e-9, atol=1e-9 * amp), info=None)
    for i in range(d):
        sh = pos + (period[i] * A[:, i])[:, None]
        r.close("after a model change: f(x + period_i * axis_i) == f(x)", np.array(srf(sh), dtype=float), base2, rtol=1e-9, atol=1e-9 * amp * np.sqrt(np.prod(mode_no)), axis=i)
    r.eq("after a model change: generator.mode_no == requested", [int(x) for x in np.atleast_1d(srf.generator.mode_no)], mode_no)
    return r.done(outcome=[round(float(v), 9) for v in base[:3]], sub={"half_period_reproduces": half_same, "axes_checked": d})


GROUPS = {"periodic": case_periodic, "fourier_bfs": genhist.case_hist}


def run(chk):
    seed, tier = chk.seed, chk.tier
    g = generic_values(seed, 3, 0.3, 2.5, "C17")
    models = ["Gaussian", "Exponential", "Matern"] + (["Spherical"] if tier != "quick" else [])
    cases = []
    for d in (1, 2, 3):
        anis_opts = [[1.0, 1.0], [0.5, 0.75], [3.0, 0.5], [0.7, 0.9], [1.3, 0.3]] if d > 1 else [[1.0, 1.0]]
        ang_opts = [[0.0, 0.0, 0.0], [0.4 + g[0], -0.3, 0.2 * g[1]]] if d > 1 else [[0.0, 0.0, 0.0]]
        per_opts = [1.0, 7.3, [10.0, 20.0, 5.0], [40.0, 25.0, 10.0]]
        mode_opts = [2, 8, [4, 8, 2], [8, 6, 4]] if d < 3 else [2, [4, 8, 2], [8, 6, 4]] + ([8] if tier != "quick" else [])
        if d == 3:  # lists shorter than the dimension are filled with their last entry
            per_opts = per_opts + [[12.0, 20.0]]
            mode_opts = mode_opts + [[4, 6]]
            # rotations with exactly zero angles among non-zero ones (selected settings only)
            ang_opts = ang_opts + [[0.6, 0.0, -0.5], [0.0, 0.0, 0.8], [0.0, 0.7, 0.3]]
        for cls in models:
            for anis in anis_opts:
                for ang in ang_opts:
                    for per in per_opts:
                        for mo in mode_opts:
                            if d == 3 and ang in ang_opts[2:] and not (anis in anis_opts[1:3] and per in per_opts[1:3] and mo in mode_opts[:2]):
                                continue
                            for s in ([5, 20201 + seed] if tier == "quick" else [5, 20201 + seed, 77]):
                                cases.append({"cls": cls, "dim": d, "anis": anis, "angles": ang, "period": per, "mode_no": mo, "seed": s, "len_scale": 0.2 * (per if np.isscalar(per) else per[0]) * (1 + 0.1 * g[2])})
    cs, res = chk.run("periodic", case_periodic, cases, rule="model x dim x anisotropy (1, <1, >1) x rotation (none / generic) x period (scalar, per axis, list shorter than dim) x even mode counts (scalar, per axis, list shorter than dim) x seeds; shifts by +-1, +-2 periods along every main axis at lattice and off-grid points")
    st = chk.groups["periodic"]["sub"]
    chk.control("half-period shift does not reproduce the field", st.get("half_period_reproduces", 0) < 0.2 * max(1, st.get("axes_checked", 1)), info=f"{st.get('half_period_reproduces', 0)} of {st.get('axes_checked', 0)} axis checks reproduced under a half-period shift")
    cfgs = [
        {"gen": "Fourier", "cls": "Gaussian", "dim": 2, "nugget": 0.0, "mode_no": [4, 6]},
        {"gen": "Fourier", "cls": "Exponential", "dim": 1, "nugget": 0.0, "mode_no": 8},
        {"gen": "Fourier", "cls": "Gaussian", "dim": 2, "nugget": 0.0, "mode_no": 4, "rotate": False},
    ]
    if tier != "quick":
        cfgs.append({"gen": "Fourier", "cls": "Gaussian", "dim": 3, "nugget": 0.0, "mode_no": [4, 2, 4]})
        cfgs.append({"gen": "Fourier", "cls": "Matern", "dim": 2, "nugget": 0.0, "mode_no": [6, 4], "opt": {"nu": 1.5}, "opt_ops": [("nu", 0.7)]})
    depth = 3 if tier == "quick" else 4
    chk.bfs("fourier_bfs", genhist.case_hist, cfgs, lambda cfg: genhist.ops_for(cfg, tier), depth, rule="BFS over histories of period / mode_no / in-place model (anis, len_scale, angles, var) / model re-assignment / generator.update(...) / re-seed / call on SRF(generator='Fourier'); after every call periodicity for the current settings and equality with a fresh generator")
    chk.assume("periodicity is judged to 1e-9 relative to the field amplitude (phase arithmetic in double precision), at 2^d lattice points and 3 off-grid points per configuration; odd mode counts are rejected by the library and not explored")
