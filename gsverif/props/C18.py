"""C18 - normalizers are invertible monotone maps; the mean/norm/trend pipeline is exact.

Bounded exhaustive enumeration: (normalizer class x lambda alphabet x shift
alphabet) x data grid, against closed forms written from the class docstrings
(mpmath, 30 digits).  See DESIGN.md sec. 5 / C18.
"""
import itertools
import math
import warnings

import mpmath as mp
import numpy as np

import gstools as gs
from gstools import normalizer as gn
from gstools.normalizer.tools import apply_mean_norm_trend, remove_trend_norm_mean

from ..core import R, generic_values, product_cases

LEVEL = "exploration"
mp.mp.dps = 30
INF = math.inf

# ---------------------------------------------------------------------------
# reference model: documented formulas (docstrings of normalizer/methods.py)


def _bc(x, lam):  # Box-Cox kernel ((x^lam - 1)/lam, log x)
    x = mp.mpf(x)
    lam = mp.mpf(lam)
    return mp.log(x) if lam == 0 else (x**lam - 1) / lam


def ref_normalize(cls, lam, shift, x):
    x = mp.mpf(x)
    if cls == "LogNormal":
        return mp.log(x)
    if cls == "BoxCox":
        return _bc(x, lam)
    if cls == "BoxCoxShift":
        return _bc(x + mp.mpf(shift), lam)
    if cls == "YeoJohnson":
        return _bc(x + 1, lam) if x >= 0 else -_bc(-x + 1, 2 - mp.mpf(lam))
    if cls == "Modulus":
        return mp.sign(x) * _bc(abs(x) + 1, lam)
    if cls == "Manly":
        lam = mp.mpf(lam)
        return x if lam == 0 else mp.expm1(lam * x) / lam
    raise KeyError(cls)


def ref_derivative(cls, lam, shift, x):
    x = mp.mpf(x)
    lam = mp.mpf(lam)
    if cls == "LogNormal":
        return 1 / x
    if cls == "BoxCox":
        return x ** (lam - 1)
    if cls == "BoxCoxShift":
        return (x + mp.mpf(shift)) ** (lam - 1)
    if cls == "YeoJohnson":
        return (x + 1) ** (lam - 1) if x >= 0 else (1 - x) ** (1 - lam)
    if cls == "Modulus":
        return (abs(x) + 1) ** (lam - 1)
    if cls == "Manly":
        return mp.exp(lam * x)
    raise KeyError(cls)


def ref_domain(cls, lam, shift):
    """valid input range (open interval) as documented"""
    if cls in ("LogNormal", "BoxCox"):
        return (0.0, INF)
    if cls == "BoxCoxShift":
        return (-shift, INF)
    return (-INF, INF)


def ref_image(cls, lam, shift):
    """true image of the valid input range under the documented formula"""
    if cls == "LogNormal":
        return (-INF, INF)
    if cls in ("BoxCox", "BoxCoxShift"):
        # u in (0, inf): (u^lam-1)/lam
        if lam == 0:
            return (-INF, INF)
        return (-1 / lam, INF) if lam > 0 else (-INF, -1 / lam)
    if cls == "YeoJohnson":
        lo = -INF if lam <= 2 else -1 / (lam - 2)  # x<0 branch: -( (1-x)^(2-lam) -1)/(2-lam)
        hi = INF if lam >= 0 else -1 / lam
        return (lo, hi)
    if cls == "Modulus":
        if lam >= 0:
            return (-INF, INF)
        return (1 / lam, -1 / lam)
    if cls == "Manly":
        if lam == 0:
            return (-INF, INF)
        return (-1 / lam, INF) if lam > 0 else (-INF, -1 / lam)
    raise KeyError(cls)


def make(cls, lam, shift):
    C = getattr(gn, cls)
    if cls == "LogNormal":
        return C()
    if cls == "BoxCoxShift":
        return C(lmbda=lam, shift=shift)
    return C(lmbda=lam)


def eff_lam(cls, lam):
    """the library treats |lam| <= 1e-8 as 0 and |lam-2| <= ~1e-8 as 2 (YeoJohnson): documented
    special values; the closed forms are continuous there, so the reference uses the
    given lambda and the tolerance accounts for the O(1e-8) difference."""
    return lam


LAMS = [-2.0, -1.0, -0.5, -1e-9, 0.0, 1e-9, 0.5, 1.0, 2.0 - 1e-9, 2.0, 2.0 + 1e-9, 3.0]
SHIFTS = [0.0, 0.5, -1.0]
POS_X = [1e-3, 0.01, 0.1, 0.5, 1 - 1e-9, 1.0, 1.5, 2.0, 10.0, 100.0, 1e3]
REAL_X = [-100.0, -10.0, -2.0, -1.0, -0.5, -1e-3, -1e-9, 0.0, 1e-9, 1e-3, 0.5, 1.0, 2.0, 10.0, 100.0]


def configs(seed, tier):
    lams = list(LAMS) + generic_values(seed, 2 if tier == "quick" else 6, -2.5, 3.5, "C18lam")
    out = [{"cls": "LogNormal", "lam": 0.0, "shift": 0.0}]
    for cls in ["BoxCox", "YeoJohnson", "Modulus", "Manly"]:
        for lam in lams:
            out.append({"cls": cls, "lam": lam, "shift": 0.0})
    for lam in lams:
        for s in SHIFTS + generic_values(seed, 1, -2, 2, "C18shift"):
            out.append({"cls": "BoxCoxShift", "lam": lam, "shift": s})
    return out


def xgrid(cls, lam, shift):
    if cls in ("LogNormal", "BoxCox"):
        return list(POS_X)
    if cls == "BoxCoxShift":
        return [x - shift for x in POS_X]
    return list(REAL_X)


def _representable(cls, lam, shift, x):
    """guard: the exact transform and its derivative are well inside double range and the
    round trip is not destroyed by cancellation (|y - bound| relative gap > 1e-6)."""
    try:
        y = ref_normalize(cls, lam, shift, x)
        d = ref_derivative(cls, lam, shift, x)
    except Exception:
        return False
    if not (abs(y) < 1e12 and 1e-12 < d < 1e12):
        return False
    if cls == "Manly" and abs(lam * x) > 30:
        return False
    lo, hi = ref_image(cls, lam, shift)
    for b in (lo, hi):
        if math.isfinite(b) and abs(float(y) - b) < 1e-6 * max(1.0, abs(b)):
            return False
    return True


# ---------------------------------------------------------------------------
def case_pointwise(case):
    """closed form, derivative, round trip, monotonicity, range semantics for one normalizer"""
    r = R()
    cls, lam, shift = case["cls"], case["lam"], case["shift"]
    warnings.simplefilter("ignore")
    nrm = make(cls, lam, shift)
    xs_all = xgrid(cls, lam, shift)
    xs = [x for x in xs_all if _representable(cls, lam, shift, x)]
    if len(xs) < 3:
        return r.done(skip="fewer than 3 representable grid points")
    xs = np.array(sorted(xs))
    yref = np.array([float(ref_normalize(cls, lam, shift, x)) for x in xs])
    dref = np.array([float(ref_derivative(cls, lam, shift, x)) for x in xs])
    # tolerance for the |lam|<=1e-8 / |lam-2|<=1e-8 special-value zone: the closed forms differ
    # by O(1e-9 * log^2) there
    zone = abs(lam) <= 1e-8 or (cls == "YeoJohnson" and abs(lam - 2) <= 1e-8)
    rt = 1e-6 if zone else 1e-9
    y = nrm.normalize(xs)
    r.close("normalize==closed_form", y, yref, rtol=rt, atol=rt * 1e-3)
    d = nrm.derivative(xs)
    r.close("derivative==closed_form", d, dref, rtol=rt, atol=0)
    # scalar, list and 2-D inputs give the same values
    r.close("normalize(list)==normalize(array)", nrm.normalize(list(xs)), y, rtol=0, atol=0)
    r.close("normalize(2d)==normalize(array)", nrm.normalize(xs.reshape(1, -1))[0], y, rtol=0, atol=0)
    r.close("normalize(scalar)==normalize(array)", [float(nrm.normalize(float(x))) for x in xs], y, rtol=0, atol=0)
    # strictly increasing
    r.true("normalize strictly increasing", bool(np.all(np.diff(y) > 0)), info=y.tolist())
    # Richardson difference of normalize
    for x, dr in zip(xs, dref):
        h = 1e-4 * max(abs(x + (shift if cls == "BoxCoxShift" else 0.0)), 1e-3) if cls in ("LogNormal", "BoxCox", "BoxCoxShift") else 1e-4 * max(abs(x), 1e-2)
        if cls == "YeoJohnson" and abs(x) < 2 * h:
            continue
        if cls == "Modulus" and abs(x) < 2 * h:
            continue
        f = lambda t: float(nrm.normalize(np.array([t]))[0])
        d1 = (f(x + h) - f(x - h)) / (2 * h)
        d2 = (f(x + h / 2) - f(x - h / 2)) / h
        dd = (4 * d2 - d1) / 3
        r.close("derivative==finite_difference(normalize)", dd, dr, rtol=1e-5, atol=1e-7 * abs(yref).max() / h, x=float(x))
    # round trip x -> y -> x ; conditioning aware tolerance (backward error of y amplified by 1/T')
    back = nrm.denormalize(y)
    scale = np.abs(yref) + (abs(1 / lam) if abs(lam) > 1e-8 else 0.0) + 1.0
    tol = 1e-9 * np.abs(xs) + 256 * np.finfo(float).eps * scale / dref
    if zone:
        tol = tol + 1e-6 * (np.abs(xs) + 1)
    bad = ~(np.abs(back - xs) <= tol)
    r.true("denormalize(normalize(x))==x", not bad.any(), info={"x": xs[bad][:3].tolist(), "back": back[bad][:3].tolist(), "y": y[bad][:3].tolist()})
    # round trip on the image: y -> x -> y for image points generated by the reference
    ys = yref
    xb = nrm.denormalize(ys)
    yb = nrm.normalize(xb)
    toly = 1e-9 * np.abs(ys) + 1e-10 + (1e-6 * (np.abs(ys) + 1) if zone else 0)
    bad = ~(np.abs(yb - ys) <= toly)
    r.true("normalize(denormalize(y))==y", not bad.any(), info={"y": ys[bad][:3].tolist(), "yb": yb[bad][:3].tolist()})
    # NaN in -> NaN out, position preserved
    z = np.array([xs[0], np.nan, xs[-1]])
    zn = nrm.normalize(z)
    r.true("NaN->NaN normalize", np.isnan(zn[1]) and not np.isnan(zn[0]) and not np.isnan(zn[2]), info=zn.tolist())
    zd = nrm.denormalize(np.array([y[0], np.nan, y[-1]]))
    r.true("NaN->NaN denormalize", np.isnan(zd[1]) and not np.isnan(zd[0]) and not np.isnan(zd[2]), info=zd.tolist())
    # out-of-range input -> NaN; in-range input -> a number
    lo, hi = ref_domain(cls, lam, shift)
    if math.isfinite(lo):
        outside = np.array([lo, lo - 0.5, lo - 100.0])
        r.true("out-of-range input -> NaN", bool(np.all(np.isnan(nrm.normalize(outside)))), info=nrm.normalize(outside).tolist())
        r.true("out-of-range input -> NaN (derivative)", bool(np.all(np.isnan(nrm.derivative(outside)))), info=None)
    # range attributes equal the true domain / image
    if not zone:
        dom = tuple(float(v) for v in nrm.normalize_range)
        r.close("normalize_range==documented domain", dom, (lo, hi), rtol=1e-12)
        ilo, ihi = ref_image(cls, lam, shift)
        img = tuple(float(v) for v in nrm.denormalize_range)
        # The reported range must never be narrower than the true image (valid normal values would
        # become NaN and the round trip breaks); where a finite bound is reported it must be the true
        # bound, and values beyond a reported finite bound must give NaN.  Classes that report an
        # unbounded range although their image is bounded (YeoJohnson, Modulus) are not judged on
        # values outside the image: the property's "out-of-range" refers to the reported ranges.
        for k, (got, tru) in enumerate(zip(img, (ilo, ihi))):
            side = "lower" if k == 0 else "upper"
            if math.isfinite(got):
                r.close(f"denormalize_range {side} bound == image bound", got, tru, rtol=1e-12)
                sgn = -1 if k == 0 else 1
                v = nrm.denormalize(np.array([got + sgn * 0.5 * max(1.0, abs(got))]))
                r.true("normal value beyond reported bound -> NaN", bool(np.isnan(v[0])), info=float(v[0]), bound=float(got))
            else:
                r.true(f"denormalize_range {side} bound not narrower than image", True)
    return r.done(outcome=[round(float(v), 9) for v in y[:4]])


def _datasets(seed):
    q = np.array([0.05, 0.12, 0.2, 0.3, 0.41, 0.5, 0.62, 0.7, 0.81, 0.9, 0.97])
    from scipy.stats import norm

    z = norm.ppf(q)
    g = generic_values(seed, 2, 0.3, 0.9, "C18data")
    return {
        "lognormal": np.exp(0.5 + g[0] * z),
        "square": (2.5 + z) ** 2,
        "sqrt": np.sqrt(3.0 + z),
        "shifted": 1.5 + g[1] * z + 0.1 * z**2,
        "signed": z + 0.2 * z**2 - 0.3,
        "signed_cubic": z + 0.1 * z**3,
    }


def _kllf_ref(cls, lam, shift, data):
    """kernel log-likelihood from the definition: -n/2 log var(T(x)) + sum log T'(x)"""
    y = [ref_normalize(cls, lam, shift, x) for x in data]
    n = len(y)
    m = sum(y) / n
    var = sum((v - m) ** 2 for v in y) / n
    return float(-mp.mpf(n) / 2 * mp.log(var) + sum(mp.log(ref_derivative(cls, lam, shift, x)) for x in data))


def case_likelihood(case):
    """loglikelihood equals the definition; fit attains the brute-force maximum"""
    r = R()
    warnings.simplefilter("ignore")
    cls, ds = case["cls"], case["data"]
    data = _datasets(case["seed"])[ds]
    shift = case.get("shift", 0.0)
    dom = ref_domain(cls, 1.0, shift)
    if not (data.min() > dom[0]):
        return r.done(skip="data outside valid range")
    n = len(data)
    for lam in case["lams"]:
        nrm = make(cls, lam, shift)
        ref = _kllf_ref(cls, lam, shift, data)
        r.close("kernel_loglikelihood==definition", nrm.kernel_loglikelihood(data), ref, rtol=1e-7, atol=1e-7, lam=lam)
        full = ref - 0.5 * n * (math.log(2 * math.pi) + 1)
        r.close("loglikelihood==definition", nrm.loglikelihood(data), full, rtol=1e-7, atol=1e-7, lam=lam)
        r.close("likelihood==exp(loglikelihood)", nrm.likelihood(data), math.exp(full), rtol=1e-6, lam=lam)
        # missing (NaN) and out-of-range entries are not part of the sample
        dm = ref_domain(cls, lam, shift)
        bad = [np.nan, np.nan, np.nan] + ([dm[0] - 1.0, dm[0] - 0.25] if np.isfinite(dm[0]) else []) + ([dm[1] + 0.5] if np.isfinite(dm[1]) else [])
        dirty = np.insert(np.asarray(data, dtype=float), [0, 3, 3, len(data) // 2, len(data) - 1, len(data) - 1][: len(bad)], bad)
        if np.all((data > dm[0]) & (data < dm[1])):
            r.close("loglikelihood of a sample with NaN / out-of-range entries == loglikelihood of its valid entries", nrm.loglikelihood(dirty), full, rtol=1e-7, atol=1e-7, lam=lam)
            r.close("kernel_loglikelihood of a sample with NaN / out-of-range entries == that of its valid entries", nrm.kernel_loglikelihood(dirty), ref, rtol=1e-7, atol=1e-7, lam=lam)
        if cls == "LogNormal":
            break
    if cls == "LogNormal":
        return r.done(outcome="ln")
    # brute-force maximum over a lambda grid
    grid = np.linspace(-3, 3, 401)
    vals = np.array([_kllf_np(cls, lam, shift, data) for lam in grid])
    nloc = int(np.sum((vals[1:-1] > vals[:-2]) & (vals[1:-1] > vals[2:])))
    imax = int(np.argmax(vals))
    if nloc != 1 or imax in (0, len(grid) - 1):
        return r.done(outcome="multi", skip=None if False else "likelihood not unimodal in the interior of [-3,3]")
    nrm = make(cls, 1.0, shift)
    if cls == "BoxCoxShift":
        res = nrm.fit(data, skip=["shift"])
        r.close("fit keeps skipped parameter", res["shift"], shift, rtol=0, atol=0)
    else:
        res = nrm.fit(data)
    lam_fit = float(res["lmbda"])
    r.close("fit result == state", float(nrm.lmbda), lam_fit, rtol=0, atol=0)
    got = _kllf_ref(cls, lam_fit, shift, data)
    r.true("fit attains brute-force maximum likelihood", got >= vals.max() - 1e-8 * (abs(vals.max()) + 1), info={"fit": lam_fit, "llf": got, "grid_argmax": float(grid[imax]), "grid_max": float(vals.max())})
    r.true("fit close to grid argmax", abs(lam_fit - grid[imax]) <= 2 * (grid[1] - grid[0]), info={"fit": lam_fit, "grid_argmax": float(grid[imax])})
    if cls == "BoxCoxShift":
        # the other selection: lmbda kept, shift fitted (skipped name sorts before the free one)
        for lam0 in (0.5, 0.0, -0.4):
            n3 = make(cls, lam0, shift)
            sgrid = -float(data.min()) + np.geomspace(1e-3, 30.0, 300)
            sv = np.array([_kllf_np(cls, lam0, s_, data) for s_ in sgrid])
            res3 = n3.fit(data, skip=["lmbda"])
            r.close("fit(skip=['lmbda']) keeps the skipped parameter", [float(res3["lmbda"]), float(n3.lmbda)], [lam0, lam0], rtol=0, atol=0, lam=lam0)
            r.close("fit(skip=['lmbda']) result == state", float(n3.shift), float(res3["shift"]), rtol=0, atol=0, lam=lam0)
            js = int(np.argmax(sv))
            if 0 < js < len(sgrid) - 1 and float(res3["shift"]) > -float(data.min()):
                got3 = _kllf_np(cls, lam0, float(res3["shift"]), data)
                r.true("fit(skip=['lmbda']): fitted shift attains the brute-force maximum likelihood for the kept lmbda", got3 >= sv.max() - 1e-6 * (abs(sv.max()) + 1), info={"fit": float(res3["shift"]), "llf": got3, "grid_argmax": float(sgrid[js]), "grid_max": float(sv.max())}, lam=lam0)
        # both parameters fitted
        n4 = make(cls, 1.0, shift)
        res4 = n4.fit(data)
        r.close("fit (both parameters) result == state", [float(n4.lmbda), float(n4.shift)], [float(res4["lmbda"]), float(res4["shift"])], rtol=0, atol=0)
        # (the joint likelihood of lmbda and shift is unbounded as shift -> -min(data): no maximum to compare with)
    # constructor with data fits as well
    C = getattr(gn, cls)
    n2 = C(data) if cls != "BoxCoxShift" else None
    if n2 is not None:
        r.close("Normalizer(data) == fit(data)", float(n2.lmbda), lam_fit, rtol=1e-6, atol=1e-6)
    return r.done(outcome=round(lam_fit, 4))


def _kllf_np(cls, lam, shift, x):
    """float version of the definition (fast, for the brute-force grid)"""
    x = np.asarray(x, float)

    def bc(u, l):
        return np.log(u) if l == 0 else (u**l - 1) / l

    if cls == "BoxCox":
        y, ld = bc(x, lam), (lam - 1) * np.log(x)
    elif cls == "BoxCoxShift":
        y, ld = bc(x + shift, lam), (lam - 1) * np.log(x + shift)
    elif cls == "YeoJohnson":
        y = np.where(x >= 0, bc(np.abs(x) + 1, lam), -bc(np.abs(x) + 1, 2 - lam))
        ld = np.sign(x) * (lam - 1) * np.log(np.abs(x) + 1)
    elif cls == "Modulus":
        y, ld = np.sign(x) * bc(np.abs(x) + 1, lam), (lam - 1) * np.log(np.abs(x) + 1)
    elif cls == "Manly":
        y, ld = (x if lam == 0 else np.expm1(lam * x) / lam), lam * x
    return -0.5 * len(x) * np.log(np.var(y)) + np.sum(ld)


# ---------------------------------------------------------------------------
# pipeline: output = trend + denormalize(mean + raw)
def _mean_fn(kind, dim, vector=False):
    if kind == "none":
        return None, (lambda *p: 0.0)
    if kind == "const":
        return 1.25, (lambda *p: 1.25)
    if kind == "callable":
        f = lambda *p: 0.5 + 0.25 * p[0] - (0.125 * p[-1] if len(p) > 1 else 0.0)
        return f, f
    raise KeyError(kind)


def _pipeline_obj(kind, dim, mean, normalizer, trend):
    model = gs.Exponential(dim=dim, var=0.5, len_scale=2.0)
    if kind == "Field":
        return gs.field.Field(dim=dim, mean=mean, normalizer=normalizer, trend=trend)
    if kind == "SRF":
        return gs.SRF(model, mean=mean if mean is not None else 0.0, normalizer=normalizer, trend=trend, seed=7, mode_no=8)
    cp = [[0.3, 1.9, 1.1, 3.3, 4.7][: 5]] * 1
    cp = np.array([[0.3, 1.9, 1.1, 3.3, 4.7], [1.2, 0.6, 3.2, 4.4, 3.8], [0.1, 2.2, 1.4, 0.7, 3.1]])[:dim]
    cv = np.array([1.47, 1.04, 1.65, 1.18, 1.9])
    if kind == "Krige":
        return gs.Krige(model, cp, cv, mean=mean, normalizer=normalizer, trend=trend, unbiased=False)
    if kind == "CondSRF":
        kr = gs.Krige(model, cp, cv, mean=mean, normalizer=normalizer, trend=trend, unbiased=False)
        return gs.CondSRF(kr, seed=7, mode_no=8)
    raise KeyError(kind)


def case_pipeline(case):
    r = R()
    warnings.simplefilter("ignore")
    dim, kind, mesh = case["dim"], case["obj"], case["mesh"]
    mean, mean_f = _mean_fn(case["mean"], dim)
    trend, trend_f = _mean_fn(case["trend"], dim)
    ncls, lam = case["norm"]
    nrm = None if ncls is None else make(ncls, lam, 0.25)
    obj = _pipeline_obj(kind, dim, mean, nrm, trend)
    ax = [np.array([0.0, 1.0, 2.5]), np.array([0.5, 1.5]), np.array([0.25, 2.0])][:dim]
    if mesh == "structured":
        pos = ax
        grid = np.meshgrid(*ax, indexing="ij")
        pts = [g for g in grid]
    else:
        pos = [np.array([0.0, 1.0, 2.5, 4.0]), np.array([0.5, 1.5, 0.2, 3.0]), np.array([0.25, 2.0, 1.0, 0.0])][:dim]
        pts = pos
    kw = {"mesh_type": mesh}
    if kind == "Field":
        rawin = 0.3 + 0.1 * np.arange(np.prod(np.shape(pts[0]))).reshape(np.shape(pts[0]))
        raw = obj(pos, field=rawin.copy(), post_process=False, **kw)
        out = obj(pos, field=rawin.copy(), post_process=True, **kw)
        r.close("Field raw == given field", raw, rawin, rtol=0, atol=0)
    elif kind in ("SRF", "CondSRF"):
        raw = obj(pos, seed=11, post_process=False, **kw)
        out = obj(pos, seed=11, post_process=True, **kw)
    else:
        raw = obj(pos, post_process=False, **kw)
        if isinstance(raw, tuple):
            raw = raw[0]
        out = obj(pos, post_process=True, **kw)
        if isinstance(out, tuple):
            out = out[0]
    raw = np.array(raw, dtype=float)
    inner = raw + np.asarray(mean_f(*pts), dtype=float)
    if ncls is None:
        den = inner
    else:
        den = np.array([float(_ref_denorm(ncls, lam, 0.25, v)) for v in inner.ravel()]).reshape(inner.shape)
    exp = den + np.asarray(trend_f(*pts), dtype=float)
    inside = np.isfinite(den)
    if inside.sum() < 0.5 * inside.size:
        return r.done(skip="most inner values outside the image of the normalizer")
    out = np.where(inside, out, np.nan)
    exp = np.where(inside, exp, np.nan)
    r.close("output == trend + denormalize(mean + raw)", out, exp, rtol=1e-9, atol=1e-12)
    # remove_trend_norm_mean inverts apply_mean_norm_trend
    if np.all(inside):
        back = remove_trend_norm_mean(pos, np.array(out, dtype=float).copy(), mean=mean, normalizer=nrm, trend=trend, mesh_type=mesh, value_type="scalar", check_shape=True)
        r.close("remove_trend_norm_mean(apply(...)) == raw", back, raw, rtol=1e-8, atol=1e-10)
        fwd = apply_mean_norm_trend(pos, raw.copy(), mean=mean, normalizer=nrm, trend=trend, mesh_type=mesh, value_type="scalar", check_shape=True)
        r.close("apply_mean_norm_trend == documented composition", fwd, exp, rtol=1e-9, atol=1e-12)
        # the form used inside the library (no shape check, float64 data in target shape), twice on the same data
        o = np.array(out, dtype=np.double)
        if mesh == "structured" or True:
            for rep in (1, 2):
                b = remove_trend_norm_mean(pos if mesh == "structured" else [np.asarray(p) for p in pos], o, mean=mean, normalizer=nrm, trend=trend, mesh_type=mesh, value_type="scalar", check_shape=False)
                r.close("remove_trend_norm_mean(check_shape=False) == raw, also when applied again to the same data", b, raw, rtol=1e-8, atol=1e-10, rep=rep)
            f2 = apply_mean_norm_trend(pos if mesh == "structured" else [np.asarray(p) for p in pos], np.array(raw, dtype=np.double), mean=mean, normalizer=nrm, trend=trend, mesh_type=mesh, value_type="scalar", check_shape=False)
            r.close("apply_mean_norm_trend(check_shape=False) == documented composition", f2, exp, rtol=1e-9, atol=1e-12)
        # a derived field (transformation with process=True stored under another name) leaves the stored
        # output in the documented relation to the raw field
        if kind in ("SRF", "Field", "CondSRF") and hasattr(obj, "transform"):
            try:
                obj.transform("binary", store="derived", process=True)
                derived = True
            except Exception:  # noqa (transformation not applicable to this configuration)
                derived = False
            if derived:
                r.close("stored output still == trend + denormalize(mean + raw) after deriving another field with process=True", np.array(obj.field, dtype=float), exp, rtol=1e-9, atol=1e-12)
    # fit_normalizer: the normalizer is fitted to the data it acts on (conditioning values minus trend)
    if kind == "Krige" and ncls in ("BoxCox", "YeoJohnson") and not callable(mean):
        cvp = np.asarray(obj.cond_val, dtype=float) + 3.0  # (large enough to stay in the domain after detrending)
        dt = cvp - np.asarray(trend_f(*obj.cond_pos), dtype=float)
        if np.all(dt > 0.3):
            try:
                kf = gs.Krige(obj.model, obj.cond_pos, cvp, mean=mean, normalizer=getattr(gn, ncls)(), trend=trend, unbiased=False, fit_normalizer=True)
                nf = getattr(gn, ncls)()
                nf.fit(dt)
                r.close("Krige(fit_normalizer=True): fitted parameter == Normalizer.fit(conditioning values - trend)", float(kf.normalizer.lmbda), float(nf.lmbda), rtol=1e-6, atol=1e-8, trendkind=case["trend"])
            except ValueError:
                pass
    # the mean of the kriging system goes through the same pipeline (without the trend)
    if kind == "Krige" and not callable(mean):
        cp_, cv_ = obj.cond_pos, obj.cond_val
        for unb in (False, True):
            try:
                ko = gs.Krige(obj.model, cp_, cv_, mean=mean if not unb else None, normalizer=nrm, trend=trend, unbiased=unb)
            except Exception:  # noqa (conditioning values outside the domain of the normalizer)
                continue
            rawm = ko.get_mean(post_process=False)
            gm = ko.get_mean()
            if gm is None or rawm is None:
                continue
            mval = 0.0 if (mean is None or unb) else float(mean)
            expm = rawm + mval if ncls is None else float(_ref_denorm(ncls, lam, 0.25, rawm + mval))
            if np.isfinite(expm):
                r.close("get_mean() == denormalize(mean + raw kriging mean)", gm, expm, rtol=1e-9, atol=1e-12, unbiased=unb)
                fm = ko(pos, only_mean=True, **kw)
                fm = fm[0] if isinstance(fm, tuple) else fm
                r.close("only_mean field == get_mean() + trend", np.asarray(fm, dtype=float), expm + np.asarray(trend_f(*pts), dtype=float), rtol=1e-9, atol=1e-12, unbiased=unb)
    # history on a used kriging object: the normalizer is changed in place / replaced without a new
    # set_condition - the conditions are normalised with the present normalizer at every call, so the
    # conditioning values are still reproduced through the pipeline
    if kind == "Krige" and not callable(mean) and mesh == "unstructured":
        cp_, cv_ = np.array(obj.cond_pos, dtype=float), np.array(obj.cond_val, dtype=float)
        dt = cv_ - np.asarray(trend_f(*cp_), dtype=float)
        steps = []
        if ncls not in (None, "LogNormal"):
            steps.append(("parameter changed in place", lambda k: setattr(k.normalizer, "lmbda", lam + 0.3)))
        steps.append(("normalizer replaced", lambda k: setattr(k, "normalizer", gn.YeoJohnson(lmbda=0.7))))
        if np.all(dt > 0.05):
            steps.append(("normalizer replaced", lambda k: setattr(k, "normalizer", gn.BoxCox(lmbda=0.4))))
            steps.append(("normalizer replaced", lambda k: setattr(k, "normalizer", gn.LogNormal)))
        steps.append(("normalizer removed", lambda k: setattr(k, "normalizer", None)))
        try:
            kh = gs.Krige(obj.model, cp_, cv_, mean=mean, normalizer=None if ncls is None else make(ncls, lam, 0.25), trend=trend, unbiased=False)
            kh(pos, **kw)
        except Exception:  # noqa (conditioning values outside the domain of the normalizer)
            kh = None
        for i, (what, op) in enumerate(steps if kh is not None else []):
            op(kh)
            fh = kh(cp_, mesh_type="unstructured")
            fh = np.asarray(fh[0] if isinstance(fh, tuple) else fh, dtype=float)
            if np.all(np.isfinite(fh)):
                r.close("used kriging object, " + what + " (no set_condition): field at the conditioning points == conditioning values", fh, cv_, rtol=1e-7, atol=1e-8, step=i)
    return r.done(outcome=[round(float(v), 8) for v in np.ravel(out)[:3]])


def _ref_denorm(cls, lam, shift, y):
    """inverse of the documented transform by its closed-form inverse (independent of the code);
    NaN outside the image"""
    lo, hi = ref_image(cls, lam, shift)
    if not (lo < y < hi):
        return mp.nan
    y = mp.mpf(float(y))
    lam_ = mp.mpf(lam)

    def ibc(v, l):
        return mp.exp(v) if l == 0 else (1 + l * v) ** (1 / l)

    if cls == "LogNormal":
        return mp.exp(y)
    if cls == "BoxCox":
        return ibc(y, lam_)
    if cls == "BoxCoxShift":
        return ibc(y, lam_) - mp.mpf(shift)
    if cls == "YeoJohnson":
        return ibc(y, lam_) - 1 if y >= 0 else 1 - ibc(-y, 2 - lam_)
    if cls == "Modulus":
        return mp.sign(y) * (ibc(abs(y), lam_) - 1)
    if cls == "Manly":
        return y if lam_ == 0 else mp.log1p(lam_ * y) / lam_
    raise KeyError(cls)


def case_vector_pipeline(case):
    """vector fields: mean/trend vectors are applied per component"""
    r = R()
    warnings.simplefilter("ignore")
    dim = case["dim"]
    model = gs.Gaussian(dim=dim, var=0.7, len_scale=1.5)
    mean = case["mean"]
    trend = case["trend"]
    srf = gs.SRF(model, generator="VectorField", mean=mean, trend=trend, seed=3, mode_no=6)
    mesh = case["mesh"]
    if mesh == "structured":
        pos = [np.array([0.0, 1.0, 2.5]), np.array([0.5, 1.5]), np.array([0.25, 2.0])][:dim]
    else:
        pos = [np.array([0.0, 1.0, 2.5, 4.0]), np.array([0.5, 1.5, 0.2, 3.0]), np.array([0.25, 2.0, 1.0, 0.0])][:dim]
    raw = np.array(srf(pos, seed=5, mesh_type=mesh, post_process=False))
    out = np.array(srf(pos, seed=5, mesh_type=mesh, post_process=True))

    def comp(v, i):
        if v is None:
            return 0.0
        v = np.atleast_1d(np.asarray(v, dtype=float))
        return v[i] if v.size > 1 else v[0]

    for i in range(dim):
        r.close("vector output == trend_i + mean_i + raw_i", out[i], raw[i] + comp(mean, i) + comp(trend, i), rtol=1e-12, atol=1e-13, comp=i)
    return r.done(outcome=[round(float(v), 8) for v in out.ravel()[:3]])


GROUPS = {
    "pointwise": case_pointwise,
    "likelihood": case_likelihood,
    "pipeline": case_pipeline,
    "vector_pipeline": case_vector_pipeline,
}


def run(chk):
    seed, tier = chk.seed, chk.tier
    chk.run("pointwise", case_pointwise, configs(seed, tier), rule="6 normalizer classes x lambda alphabet (special values 0, 2, +-1e-9 zone, both signs, generic) x shift alphabet; per config the whole data grid over the valid range", max_skip_frac=0.2)
    lams = [-1.0, 0.0, 0.5, 1.0, 2.0, 3.0]
    lcases = []
    for cls in ["LogNormal", "BoxCox", "BoxCoxShift", "YeoJohnson", "Modulus", "Manly"]:
        for ds in _datasets(seed):
            for shift in ([0.0] if cls != "BoxCoxShift" else [0.0, 0.5]):
                lcases.append({"cls": cls, "data": ds, "shift": shift, "lams": lams, "seed": seed})
    chk.run("likelihood", case_likelihood, lcases, rule="class x 6 skewed data sets x lambda list; fit compared with brute-force maximum over a 401-point lambda grid", max_skip_frac=0.7)
    norms = [(None, 0.0), ("LogNormal", 0.0), ("BoxCox", 0.5), ("BoxCoxShift", -0.5), ("YeoJohnson", 0.5), ("YeoJohnson", 2.0), ("Modulus", 0.5), ("Modulus", -0.1), ("Manly", 0.3), ("Manly", -0.2)]
    dims = [1, 2] if tier == "quick" else [1, 2, 3]
    pcases = list(product_cases(obj=["Field", "SRF", "Krige", "CondSRF"], dim=dims, mesh=["unstructured", "structured"], mean=["none", "const", "callable"], trend=["none", "const", "callable"], norm=norms))
    chk.run("pipeline", case_pipeline, pcases, rule="Field/SRF/Krige/CondSRF x dim x mesh type x mean kind x trend kind x normalizer (full product)")
    vcases = list(product_cases(dim=[2, 3], mesh=["unstructured", "structured"], mean=[None, 0.5, [1.0, -2.0], [1.0, -2.0, 0.5]], trend=[None, 0.25, [0.5, 1.5]]))
    vcases = [c for c in vcases if not (isinstance(c["mean"], list) and len(c["mean"]) != c["dim"]) and not (isinstance(c["trend"], list) and len(c["trend"]) != c["dim"])]
    chk.run("vector_pipeline", case_vector_pipeline, vcases, rule="vector SRF x dim 2,3 x mesh x scalar/vector mean x scalar/vector trend")
    chk.assume("real-valued data are represented by grids placed at every branch boundary of the code (range ends, lambda special values and their 1e-8 isclose zones); points whose exact transform leaves [1e-12,1e12] or lies within 1e-6 of an image bound are excluded (cancellation, not semantics)")
    chk.assume("|lambda|<=1e-8 (and |lambda-2|<=1e-8 for YeoJohnson) is treated by the library as the special value; compared with 1e-6 tolerance there")
