"""C19 - field transformations produce their documented target distributions.

The distributional claim is decided without sampling: every transformation is a deterministic
map T, so "normal marginal -> target marginal" <=> T(mu + sigma * Phi^-1(p)) = F_target^-1(p)
for every p.  Enumerated: all array_* functions and all Field.transform wrappers x (mu,
sigma^2) x target parameters x process / keep_mean x source / store names x the complete
probability grid {k/1000} plus the tails; discrete / binary transforms at exactly the
thresholds and their floating-point neighbours.
"""
import itertools
import math
import warnings

import mpmath as mp
import numpy as np

import gstools as gs
from gstools import transform as tf

from ..core import R, generic_values

LEVEL = "exploration"
warnings.simplefilter("ignore")
mp.mp.dps = 30

P = np.concatenate([[1e-6], np.arange(1, 1000) / 1000.0, [1 - 1e-6]])
_Z = np.array([float(mp.sqrt(2) * mp.erfinv(2 * mp.mpf(float(p)) - 1)) for p in P])
MOMENTS = [(0.0, 1.0), (3.0, 0.25), (-2.0, 9.0)]


def normal_q(mu, var):
    return mu + math.sqrt(var) * _Z


def case_array(case):
    r = R()
    mu, var = case["mu"], case["var"]
    sd = math.sqrt(var)
    x = normal_q(mu, var)
    fn = case["fn"]
    extra = {"fn": fn}
    if fn == "lognormal":
        y = tf.array_to_lognormal(x)
        r.close("log-normal: T(q_p) == exp(mu + sigma z_p)", y, np.exp(mu + sd * _Z), rtol=1e-12, **extra)
        r.close("log-normal: log of the result is the input", np.log(y), x, rtol=1e-12, atol=1e-12, **extra)
    elif fn == "uniform":
        for low, high in [(0.0, 1.0), (-2.0, 6.0), (5.0, 5.5)]:
            y = tf.array_to_uniform(x, mean=mu, var=var, low=low, high=high)
            r.close("uniform: T(q_p) == low + p (high - low)", y, low + P * (high - low), rtol=1e-9, atol=1e-9 * (high - low), low=low, high=high, **extra)
            r.true("uniform: values inside [low, high] and increasing", bool(np.all(y >= low) and np.all(y <= high) and np.all(np.diff(y) > 0)), low=low, high=high, **extra)
    elif fn == "arcsin":
        for a, b in [(None, None), (-1.0, 4.0), (2.0, 2.5), (-4.0, None), (None, 7.5), (0, None), (None, 0)]:
            if (a is not None and b is None and a >= mu + math.sqrt(2 * var)) or (b is not None and a is None and b <= mu - math.sqrt(2 * var)):
                continue
            y = tf.array_to_arcsin(x, mean=mu, var=var, a=a, b=b)
            aa = mu - math.sqrt(2 * var) if a is None else a
            bb = mu + math.sqrt(2 * var) if b is None else b
            r.close("arcsine: T(q_p) == a + (b - a) sin^2(pi p / 2)", y, aa + (bb - aa) * np.sin(np.pi * P / 2) ** 2, rtol=1e-9, atol=1e-9 * (bb - aa), a=a, b=b, **extra)
            if a is None and b is None:
                # default bounds preserve mean and variance: arcsine law on [a,b] has mean (a+b)/2, variance (b-a)^2/8
                r.close("arcsine default bounds preserve mean and variance", [(aa + bb) / 2, (bb - aa) ** 2 / 8], [mu, var], rtol=1e-12, atol=1e-14, **extra)
                r.close("arcsine default bounds as used", [float(y[0]), float(y[-1])], [aa + (bb - aa) * math.sin(math.pi * 1e-6 / 2) ** 2, aa + (bb - aa) * math.sin(math.pi * (1 - 1e-6) / 2) ** 2], rtol=1e-8, atol=1e-9, **extra)
    elif fn == "uquad":
        for a, b in [(None, None), (-1.0, 4.0), (2.0, 2.5), (-4.0, None), (None, 7.5), (0, None), (None, 0)]:
            if (a is not None and b is None and a >= mu + math.sqrt(5.0 / 3.0 * var)) or (b is not None and a is None and b <= mu - math.sqrt(5.0 / 3.0 * var)):
                continue
            y = tf.array_to_uquad(x, mean=mu, var=var, a=a, b=b)
            aa = mu - math.sqrt(5.0 / 3.0 * var) if a is None else a
            bb = mu + math.sqrt(5.0 / 3.0 * var) if b is None else b
            al, be = 12 / (bb - aa) ** 3, (aa + bb) / 2
            ppf = be + np.cbrt(3 * P / al - (be - aa) ** 3)
            # the quantile function is ill-conditioned at p = 1/2 (zero density): compared away from it,
            # the centre is judged through the cdf below
            far = np.abs(P - 0.5) > 0.01
            r.close("U-quadratic: T(q_p) == beta + cbrt(3 p / alpha - (beta - a)^3)", y[far], ppf[far], rtol=1e-9, atol=1e-8 * (bb - aa), a=a, b=b, **extra)
            # cdf of the result equals p
            cdf = al / 3 * ((y - be) ** 3 + (be - aa) ** 3)
            r.close("U-quadratic: F(T(q_p)) == p", cdf, P, rtol=1e-7, atol=1e-9, a=a, b=b, **extra)
            if a is None and b is None:
                r.close("U-quadratic default bounds preserve mean and variance", [(aa + bb) / 2, 3 * (bb - aa) ** 2 / 20], [mu, var], rtol=1e-12, atol=1e-14, **extra)
    elif fn == "zinnharvey":
        # |z| quantiles: |z|_p = Phi^-1((1+p)/2); the transform maps them to -+ Phi^-1(p)
        pz = P[5:-5:7]
        zabs = np.array([float(mp.sqrt(2) * mp.erfinv(mp.mpf(float(p)))) for p in pz])  # P(|Z| <= zabs) = p
        zq = np.array([float(mp.sqrt(2) * mp.erfinv(2 * mp.mpf(float(p)) - 1)) for p in pz])
        for conn, sign in (("high", -1.0), ("low", 1.0)):
            for s in (1.0, -1.0):
                y = tf.array_zinnharvey(mu + s * sd * zabs, conn=conn, mean=mu, var=var)
                r.close("Zinn-Harvey: T(|z|-quantile p) == -+ normal quantile p (normal marginal kept, connectivity reversed)", y, mu + sign * sd * zq, rtol=1e-7, atol=1e-7 * sd, conn=conn, side=s, **extra)
            y = tf.array_zinnharvey(x, conn=conn, mean=mu, var=var)
            yl = tf.array_zinnharvey(x, conn="low" if conn == "high" else "high", mean=mu, var=var)
            r.close("Zinn-Harvey: 'high' is the mirror image of 'low' about the mean", y - mu, -(yl - mu), rtol=1e-12, atol=1e-12, conn=conn, **extra)
            r.close("Zinn-Harvey: symmetric in z - mean", y, tf.array_zinnharvey(2 * mu - x, conn=conn, mean=mu, var=var), rtol=1e-9, atol=1e-9 * sd, conn=conn, **extra)
            upper = y[len(y) // 2 + 1 :]
            r.true("Zinn-Harvey: monotone in |z - mean|", bool(np.all(np.diff(sign * upper) > 0)), conn=conn, **extra)
    elif fn == "force_moments":
        rng = np.random.RandomState(case.get("seed", 0))
        # (also inputs whose offset is large against their spread: the moments of the input must be computed stably)
        for arr in (x[::50], rng.lognormal(size=37), np.array([1.0, 2.0, 4.0, 8.0]), rng.normal(5.0, 0.1, size=(6, 5)), 1e5 + 0.01 * x[::50], -3e6 + np.array([0.0, 1e-3, 3e-3, 4e-3, 9e-3])):
            for m2, v2 in [(0.0, 1.0), (mu, var), (10.0, 0.01)]:
                y = tf.array_force_moments(arr, mean=m2, var=v2)
                off = abs(float(np.mean(arr))) / float(np.std(arr))  # conditioning of the standardisation
                rt = max(1e-10, 1e2 * np.finfo(float).eps * off)
                r.close("force-moments: sample mean exactly as requested", np.mean(y), m2, rtol=rt, atol=rt * math.sqrt(v2), **extra)
                r.close("force-moments: sample variance exactly as requested", np.var(y), v2, rtol=rt, **extra)
                r.true("force-moments: order of the values preserved", bool(np.array_equal(np.argsort(np.ravel(y), kind="stable"), np.argsort(np.ravel(arr), kind="stable"))), **extra)
    elif fn == "boxcox":
        # (also exponents that are zero up to rounding - e.g. a fitted one -: the logarithmic limit on both sides)
        for lam in (-1.0, -0.5, 0.0, 0.5, 1.0, 2.0, 1e-10, 1e-13, -1e-12, 1e-17):
            data = np.array([0.05, 0.3, 1.0, 1.7, 4.0, 25.0])
            n = gs.normalizer.BoxCox(lmbda=lam)
            r.close("Box-Cox transform inverts the Box-Cox normalizer", tf.array_boxcox(n.normalize(data), lmbda=lam), data, rtol=1e-9 if abs(lam) > 1e-9 or lam == 0 else 1e-8, lam=lam, **extra)
            if 0 < abs(lam) < 1e-9:
                r.close("Box-Cox transform with an exponent of rounding size == exponential", tf.array_boxcox(np.log(data), lmbda=lam), data, rtol=1e-8, lam=lam, **extra)
            for sh in (0.5, -0.02):
                ns = gs.normalizer.BoxCoxShift(lmbda=lam, shift=sh)
                # y = ((x+s)^l-1)/l  ->  x + s = (l y + 1)^(1/l): the transform's shift is applied to y first
                yv = n.normalize(data) - sh
                r.close("Box-Cox transform with shift: (lmbda (y + shift) + 1)^(1/lmbda)", tf.array_boxcox(yv, lmbda=lam, shift=sh), data, rtol=1e-9, lam=lam, shift=sh, **extra)
    return r.done(outcome=[fn, mu, var])


def case_discrete(case):
    r = R()
    mu, var = case["mu"], case["var"]
    sd = math.sqrt(var)
    mode = case["mode"]
    values = np.array(case["values"], dtype=float)
    n = len(values)
    extra = {"mode": mode, "n": n}
    if mode == "arithmetic":
        sv = np.sort(values)
        th = (sv[1:] + sv[:-1]) / 2
        kw = dict(values=values, thresholds="arithmetic")
        out_vals = sv
    elif mode == "equal":
        th = np.array([mu + sd * float(mp.sqrt(2) * mp.erfinv(2 * mp.mpf(k) / n - 1)) for k in range(1, n)])
        kw = dict(values=values, thresholds="equal", mean=mu, var=var)
        out_vals = values
    else:
        th = np.array(case["thresholds"], dtype=float)
        kw = dict(values=values, thresholds=list(th))
        out_vals = values
    # input: the normal quantile grid plus every threshold and its floating point neighbours
    pts = [normal_q(mu, var)]
    for t in th:
        pts.append(np.array([np.nextafter(t, -np.inf), t, np.nextafter(t, np.inf), t - 1e-9 * (1 + abs(t)), t + 1e-9 * (1 + abs(t))]))
    x = np.concatenate(pts)
    if mode == "equal":
        # thresholds are computed by the library (erfinv): exact hits cannot be constructed from outside;
        # grid points within 1e-9 of a threshold are in the guard band
        q = normal_q(mu, var)
        q = q[np.min(np.abs(q[:, None] - th[None, :]), axis=1) > 1e-9 * (1 + np.abs(q))]
        x = np.concatenate([q] + [np.array([t - 1e-9 * (1 + abs(t)), t + 1e-9 * (1 + abs(t))]) for t in th])
    y = tf.array_discrete(x, **kw)
    r.true("discrete: output contains only the given values", bool(np.all(np.isin(y, values))), info=sorted(set(np.round(y[~np.isin(y, values)], 6).tolist()))[:5], **extra)
    # class k = (t_{k-1}, t_k]  (a value exactly on a threshold belongs to the lower class)
    cls = np.searchsorted(th, x, side="left")
    r.close("discrete: classes partitioned at the thresholds", y, out_vals[cls], rtol=0, atol=0, **extra)
    if mode == "equal":
        # equal probability classes: class k holds the normal quantiles in ((k-1)/n, k/n]
        yq = tf.array_discrete(normal_q(mu, var), **kw)
        counts = np.array([(yq == v).sum() for v in values])
        r.true("discrete 'equal': classes have equal probability", bool(np.all(np.abs(counts / len(P) - 1.0 / n) <= 2.0 / len(P))), info=counts.tolist(), **extra)
    return r.done(outcome=[mode, n, mu])


def _field_obj(mu, var, trend, norm):
    m = gs.Gaussian(dim=1, var=var * 0.8, len_scale=2.0, nugget=var * 0.2)  # sill = var
    return gs.field.Field(m, mean=mu, trend=trend, normalizer=norm)


def case_wrapper(case):
    """Field.transform(method, ...) == post(array_fn(pre(stored field))) stored under the requested name"""
    r = R()
    mu, var = case["mu"], case["var"]
    method, process, keep_mean = case["method"], case["process"], case["keep_mean"]
    tk, nk = case["trend"], case["norm"]
    trend = {"none": None, "call": (lambda x: 0.1 * x - 0.2)}[tk]
    norm = {"none": None, "yj": gs.normalizer.YeoJohnson(lmbda=0.8)}[nk]
    extra = {"method": method, "process": process, "keep_mean": keep_mean, "trend": tk, "norm": nk}
    fld = _field_obj(mu, var, trend, norm)
    pos = np.linspace(0.0, 10.0, len(P[::25]))
    raw = normal_q(mu, var)[::25]  # normal part (with mean)
    tr = 0.0 if trend is None else trend(pos)
    stored = (norm.denormalize(raw) if norm is not None else raw) + tr  # what a user's field looks like
    src, dst = case["src"], case["dst"]
    if src != "field":  # an unrelated field under the default name must survive
        fld(pos, field=stored[::-1].copy() * 0.5, post_process=False, store="field")
        unrelated = np.array(fld["field"]).copy()
    fld(pos, field=stored.copy(), post_process=False, store=src)
    before = np.array(fld[src]).copy()
    kw = dict(case.get("kw", {}))
    try:
        out = fld.transform(method, field=src, store=dst, process=process, keep_mean=keep_mean, **kw)
    except ValueError as e:
        if not process and (tk != "none" or nk != "none"):
            return r.done(skip="documented refusal: transformation needs a normal field (no trend / normalizer) unless process=True")
        r.fail("wrapper raised", str(e), None, **extra)
        return r.done()
    if not process and (tk != "none" or nk != "none") and method not in ("normal_to_lognormal", "boxcox", "discrete_arith"):
        pass
    # reference: pre-process, array function with the documented mean argument, post-process
    if process:
        z = before - tr
        z = norm.normalize(z) if norm is not None else z
        if not keep_mean:
            z = z - mu
    else:
        z = before
    marg = 0.0 if (process and not keep_mean) else mu
    afn = {
        "normal_to_lognormal": lambda a: tf.array_to_lognormal(a),
        "normal_to_uniform": lambda a: tf.array_to_uniform(a, mean=marg, var=var, low=kw.get("low", 0.0), high=kw.get("high", 1.0)),
        "normal_to_arcsin": lambda a: tf.array_to_arcsin(a, mean=marg, var=var, a=kw.get("a"), b=kw.get("b")),
        "normal_to_uquad": lambda a: tf.array_to_uquad(a, mean=marg, var=var, a=kw.get("a"), b=kw.get("b")),
        "zinnharvey": lambda a: tf.array_zinnharvey(a, conn=kw.get("conn", "high"), mean=marg, var=var),
        "normal_force_moments": lambda a: tf.array_force_moments(a, mean=marg, var=var),
        "boxcox": lambda a: tf.array_boxcox(a, lmbda=kw.get("lmbda", 1), shift=kw.get("shift", 0)),
        "binary": lambda a: tf.array_discrete(a, values=[marg - math.sqrt(var) if kw.get("lower") is None else kw["lower"], marg + math.sqrt(var) if kw.get("upper") is None else kw["upper"]], thresholds=[marg if kw.get("divide") is None else kw["divide"]]),
        "discrete": lambda a: tf.array_discrete(a, values=kw["values"], thresholds=kw.get("thresholds", "arithmetic"), mean=marg, var=var),
    }[method]
    y = afn(z)
    if process:
        y = y + (0.0 if keep_mean else mu)
        y = norm.denormalize(y) if norm is not None else y
        y = y + tr
    ok = np.isfinite(y)  # (Zinn-Harvey maps the mean itself to -+inf: the |z| = 0 quantile)
    r.close("wrapper == post(array_fn(pre(stored field)))", np.asarray(out)[ok], y[ok], rtol=1e-9, atol=1e-10, **extra)
    r.true("wrapper: non-finite values only where the array function gives them", bool(np.all(~np.isfinite(np.asarray(out)[~ok]))), **extra)
    target = src if dst is True else dst
    if dst is not False:
        r.close("result stored under the requested name", np.asarray(fld[target]), out, rtol=0, atol=0, **extra)
    if src != "field":
        r.close("unrelated field stored under the default name is untouched", np.asarray(fld["field"]), unrelated, rtol=0, atol=0, **extra)
    if dst is not True:
        r.close("source field kept when storing under another name", np.asarray(fld[src]), before, rtol=0, atol=0, **extra)
    # the distribution through the wrapper (normal field with mean, no trend / normalizer)
    # (with process=True and keep_mean=False the documented pipeline removes the mean before and adds it
    #  back after the transformation: the target law is then shifted by the mean, judged above only)
    direct = (not process) or keep_mean
    if direct and tk == "none" and nk == "none" and method == "normal_to_uniform":
        lo, hi = kw.get("low", 0.0), kw.get("high", 1.0)
        r.close("wrapper: uniform on [low, high] for every process / keep_mean combination", out, lo + P[::25] * (hi - lo), rtol=1e-8, atol=1e-9 * (hi - lo), **extra)
    if direct and tk == "none" and nk == "none" and method == "normal_to_lognormal":
        r.close("wrapper: log-normal", out, np.exp(raw), rtol=1e-9, **extra)
    return r.done(outcome=[method, process, keep_mean, tk, nk])


GROUPS = {"array": case_array, "discrete": case_discrete, "wrapper": case_wrapper}


def run(chk):
    tier, seed = chk.tier, chk.seed
    g = generic_values(seed, 2, 0.2, 3.0, "C19")
    moments = MOMENTS + [(g[0] - 1.5, g[1])]
    ac = [{"fn": fn, "mu": mu, "var": var, "seed": seed} for fn in ("lognormal", "uniform", "arcsin", "uquad", "zinnharvey", "force_moments", "boxcox") for mu, var in moments]
    chk.run("array", case_array, ac, rule="array transformation x (mu, sigma^2) x target parameters on the complete probability grid {1e-6, k/1000, 1-1e-6}: quantile identity T(mu + sigma z_p) == F_target^-1(p); default bounds preserve mean and variance; Zinn-Harvey on |z| quantiles; force-moments on 4 arrays x 3 targets; Box-Cox round trip x 6 lambdas")
    dc = []
    for mu, var in moments:
        for n in (2, 3, 4, 5):
            vals = [0.0, 1.0, 2.0, 5.0, -3.0][:n]
            dc.append({"mode": "arithmetic", "values": vals, "mu": mu, "var": var})
            dc.append({"mode": "arithmetic", "values": vals[::-1], "mu": mu, "var": var})
            dc.append({"mode": "equal", "values": vals, "mu": mu, "var": var})
            th = [mu - 0.5, mu + 0.25, mu + 1.0, mu + 2.5][: n - 1]
            dc.append({"mode": "explicit", "values": vals, "thresholds": th, "mu": mu, "var": var})
            dc.append({"mode": "explicit", "values": vals, "thresholds": [float(round(t)) for t in th] if len(set(round(t) for t in th)) == len(th) else th, "mu": mu, "var": var})
    chk.run("discrete", case_discrete, dc, rule="discrete transform with 2-5 classes x thresholds {arithmetic, equal, explicit (incl. integers)} x (mu, sigma^2): inputs are the probability grid plus every threshold, its two floating-point neighbours and +-1e-9: output set and partition at the thresholds, equal-probability classes")
    wc = []
    methods = [("normal_to_lognormal", {}), ("normal_to_uniform", {"low": -2.0, "high": 6.0}), ("normal_to_uniform", {}), ("normal_to_arcsin", {}), ("normal_to_arcsin", {"a": -1.0, "b": 4.0}), ("normal_to_uquad", {}), ("zinnharvey", {"conn": "low"}), ("zinnharvey", {}), ("normal_force_moments", {}), ("boxcox", {"lmbda": 0.5, "shift": 3.0}), ("binary", {}), ("binary", {"divide": 0}), ("binary", {"divide": 0.0, "upper": 0, "lower": -1}), ("binary", {"divide": 1.3, "upper": 5.0, "lower": 0.0}), ("normal_to_uquad", {"a": -4.0}), ("normal_to_uquad", {"b": 7.5}), ("normal_to_arcsin", {"a": -4.0}), ("normal_to_arcsin", {"b": 7.5}), ("normal_to_uniform", {"low": 0, "high": 3}), ("discrete", {"values": [0.0, 1.0, 2.0]}), ("discrete", {"values": [2.0, -1.0, 0.5], "thresholds": [0.2, 1.4]}), ("discrete", {"values": [0.0, 1.0, 0.0], "thresholds": "equal"}), ("discrete", {"values": [3.0, 1.0, 2.0], "thresholds": "equal"}), ("discrete", {"values": [0.0, 1.0, 2.0], "thresholds": "equal"})]
    for (method, kw), (mu, var), process, keep_mean, (src, dst), tk, nk in itertools.product(methods, MOMENTS[1:] if tier == "quick" else MOMENTS, (False, True), (True, False), (("field", True), ("field", "out"), ("f2", "out"), ("f2", True), ("field", False)), ("none", "call"), ("none", "yj")):
        if not process and not keep_mean and method in ("normal_to_lognormal", "boxcox"):
            pass
        if method == "boxcox" and mu < 0:
            continue
        wc.append({"method": method, "kw": kw, "mu": mu, "var": var, "process": process, "keep_mean": keep_mean, "src": src, "dst": dst, "trend": tk, "norm": nk})
    chk.run("wrapper", case_wrapper, wc, rule="Field.transform wrapper x target parameters x (mu, sigma^2) x process x keep_mean x (source name, store: in place / new name / not stored) x trend {none, callable} x normalizer {none, YeoJohnson}: equals the array function on the pre-processed field, post-processed back", max_skip_frac=0.6, chunk=16)
    chk.assume("the marginal claim is decided through the quantile identity on the probability grid {1e-6, k/1000, 1-1e-6}; a value exactly on a class threshold belongs to the lower class (as for the first threshold in the documentation's formula)")
