"""C20 - operations never modify caller arrays or previously stored / returned results.

(I) every public entry point taking arrays x argument roles x array layouts that permit
    aliasing (float64 C-contiguous already in target shape, Fortran order, read-only) x option
    combinations that enable in-place arithmetic: arguments are snapshotted (bytes, shape,
    dtype, mask) before the call and compared afterwards.
(H) BFS over store / transform / call histories on Field, SRF, Krige and CondSRF objects:
    every array returned earlier and every stored field (snapshotted when produced) must be
    unchanged after each operation unless the operation names it as its target.
"""
import copy
import itertools
import json
import warnings

import numpy as np

import gstools as gs
from gstools import transform as tf
from gstools.normalizer.tools import apply_mean_norm_trend, remove_trend_norm_mean
from gstools.tools.geometric import latlon2pos, pos2latlon

from ..core import R, product_cases

LEVEL = "model_checking"
warnings.simplefilter("ignore")


def snap(a):
    if isinstance(a, (list, tuple)):
        return ("seq", [snap(x) for x in a])
    if isinstance(a, np.ma.MaskedArray):
        return ("ma", a.data.tobytes(), np.ma.getmaskarray(a).tobytes(), a.shape, str(a.dtype))
    a_ = np.asarray(a)
    return ("nd", a_.tobytes(), a_.shape, str(a_.dtype))


def lay(a, layout):
    """bring an array into the requested memory layout (a fresh object every time)"""
    a = np.array(a, dtype=np.double)
    if layout == "f" and a.ndim > 1:
        a = np.asfortranarray(a)
    if layout == "ro":
        a.setflags(write=False)
    return a


def run_scenario(r, roles, call, extra):
    before = {k: snap(v) for k, v in roles.items()}
    try:
        res = call()
    except ValueError as e:
        if "read-only" in str(e):
            r.fail("call writes into a read-only caller array", str(e), "no write into caller arrays", **extra)
            return None
        raise
    for k, v in roles.items():
        r.true(f"caller array unchanged: {k}", snap(v) == before[k], info=f"role {k} modified in place", role=k, **extra)
    return res


# ---------------------------------------------------------------------------
POS2 = [[0.3, 1.9, 1.1, 3.3, 4.7, 2.2], [1.2, 0.6, 3.2, 4.4, 3.8, 2.9]]
VAL = [0.47, 0.56, 0.74, 1.47, 1.74, 1.1]
LATLON = [[10.0, -20.0, 35.0, 50.0, -5.0, 61.0], [5.0, 100.0, -60.0, 179.0, 20.0, -120.0]]


def _mnt(opt):
    mean = {"none": None, "const": 0.7, "call": (lambda *p: 0.2 + 0.1 * p[0])}[opt.get("mean", "none")]
    trend = {"none": None, "const": 0.3, "call": (lambda *p: 0.1 * p[0] - 0.05 * p[-1])}[opt.get("trend", "none")]
    norm = {"none": None, "yj": gs.normalizer.YeoJohnson(lmbda=0.8), "ln": gs.normalizer.LogNormal()}[opt.get("norm", "none")]
    return mean, trend, norm


def sc_vario(layout, opt):
    latlon = opt.get("latlon", False)
    pos = lay(LATLON if latlon else POS2, layout)
    fld = lay(VAL if opt.get("nfields", 1) == 1 else [VAL, VAL[::-1]], layout)
    bins = lay([0.0, 1.0, 2.5, 4.0] if not latlon else [0.0, 40.0, 80.0, 170.0], layout)
    roles = {"pos": pos, "field": fld, "bin_edges": bins}
    kw = {}
    if latlon:
        kw.update(latlon=True, geo_scale=opt.get("geo_scale", 1.0))
        if kw["geo_scale"] == 1.0:
            roles["bin_edges"] = bins = lay(np.deg2rad([0.0, 40.0, 80.0, 170.0]), layout)
        elif kw["geo_scale"] == "km":
            kw["geo_scale"] = gs.KM_SCALE
            roles["bin_edges"] = bins = lay(np.deg2rad([0.0, 40.0, 80.0, 170.0]) * gs.KM_SCALE, layout)
        elif kw["geo_scale"] == "deg":
            kw["geo_scale"] = gs.DEGREE_SCALE
    mean, trend, norm = _mnt(opt)
    if latlon:
        trend = None if trend is None or not callable(trend) else (lambda lat, lon: 0.01 * lat)
        mean = None if mean is None or not callable(mean) else (lambda lat, lon: 0.02 * lon / 100)
    kw.update(mean=mean, trend=trend, normalizer=norm)
    if opt.get("mask"):
        m = np.array([False, True, False, False, False, False])
        roles["mask"] = m
        kw["mask"] = m
    if opt.get("no_data"):
        fld.setflags(write=True)
        fld[..., 2] = -999.0
        if layout == "ro":
            fld.setflags(write=False)
        kw["no_data"] = -999.0
    if opt.get("direction") and not latlon:
        d = lay([[1.0, 0.0], [1.0, 2.0]], layout)
        roles["direction"] = d
        kw.update(direction=d, angles_tol=0.6)
    if opt.get("sampling"):
        kw.update(sampling_size=4, sampling_seed=3)
    fld_arg = fld
    if opt.get("fmask"):
        # the field as a masked array (own mask at another point than the explicit mask); data and mask are
        # the caller's arrays
        fmk = np.zeros(np.shape(fld), dtype=bool)
        fmk[..., 3] = True
        roles["field_mask"] = fmk
        fld_arg = np.ma.array(fld, mask=fmk, copy=False)
    return roles, (lambda: gs.vario_estimate(pos, fld_arg, bins, return_counts=True, **kw))


def sc_vario_struct(layout, opt):
    x, y = lay([0.0, 1.0, 2.0], layout), lay([0.0, 1.5], layout)
    fld = lay(np.arange(6.0).reshape(3, 2) ** 1.5, layout)
    bins = lay([0.0, 1.2, 2.6], layout)
    mean, trend, norm = _mnt(opt)
    roles = {"x": x, "y": y, "field": fld, "bin_edges": bins}
    return roles, (lambda: gs.vario_estimate((x, y), fld, bins, mesh_type="structured", mean=mean, trend=trend, normalizer=norm))


def sc_vario_axis(layout, opt):
    base = np.arange(12.0).reshape(4, 3) ** 1.3
    kw = {}
    if opt.get("kind") == "masked":
        base = base.copy()
        if opt.get("nan"):
            base[2, 0] = np.nan
        msk = np.zeros((4, 3), dtype=bool)
        msk[1, 1] = True
        fld = np.ma.array(lay(base, layout), mask=msk)
    else:
        base = base.copy()
        if opt.get("nan"):
            base[2, 0] = np.nan
        if opt.get("no_data"):
            base[0, 1] = -999.0
            kw["no_data"] = -999.0
        fld = lay(base, layout)
    roles = {"field": fld}
    return roles, (lambda: gs.vario_estimate_axis(fld, opt.get("axis", "x"), estimator=opt.get("est", "matheron"), **kw))


def sc_standard_bins(layout, opt):
    latlon = opt.get("latlon", False)
    pos = lay(LATLON if latlon else POS2, layout)
    return {"pos": pos}, (lambda: gs.variogram.standard_bins(pos, dim=2, latlon=latlon, geo_scale=gs.KM_SCALE if latlon else 1.0))


def sc_krige(layout, opt):
    variant = opt.get("variant", "Simple")
    cp, cv = lay(POS2, layout), lay(VAL, layout)
    tp = lay([[0.0, 1.0, 2.5, 3.0], [0.5, 2.0, 1.0, 4.0]], layout)
    model = gs.Exponential(dim=2, var=1.2, len_scale=2.0, nugget=0.1)
    mean, trend, norm = _mnt(opt)
    roles = {"cond_pos": cp, "cond_val": cv, "pos": tp}
    kw = dict(normalizer=norm, trend=trend)
    if opt.get("cond_err"):
        ce = lay([0.05, 0.1, 0.02, 0.08, 0.03, 0.07], layout)
        roles["cond_err"] = ce
        kw["cond_err"] = ce
    ckw = {}
    if variant == "Simple":
        mk = lambda: gs.krige.Simple(model, cp, cv, mean=mean, **kw)
    elif variant == "Ordinary":
        mk = lambda: gs.krige.Ordinary(model, cp, cv, **kw)
    elif variant == "Universal":
        mk = lambda: gs.krige.Universal(model, cp, cv, "linear", **kw)
    elif variant == "ExtDrift":
        ed = lay([0.1, 0.5, 0.3, 0.9, 0.7, 0.2], layout)
        ted = lay([0.2, 0.4, 0.6, 0.8], layout)
        roles["ext_drift"] = ed
        roles["target_ext_drift"] = ted
        mk = lambda: gs.krige.ExtDrift(model, cp, cv, ed, **kw)
        ckw["ext_drift"] = ted
    elif variant == "Detrended":
        mk = lambda: gs.krige.Detrended(model, cp, cv, trend if callable(trend) else (lambda *p: 0.1 * p[0]))
    if opt.get("chunk"):
        ckw["chunk_size"] = 3

    def call():
        k = mk()
        out = k(tp, **ckw)
        k.set_condition(cp, cv, ext_drift=roles.get("ext_drift"))
        k.get_mean()
        k(tp, only_mean=True, **{a: b for a, b in ckw.items() if a == "ext_drift"})
        return out

    return roles, call


def sc_srf(layout, opt):
    kind = opt.get("obj", "SRF")
    mesh = opt.get("mesh", "unstructured")
    mean, trend, norm = _mnt(opt)
    model = gs.Gaussian(dim=2, var=0.8, len_scale=1.5)
    if mesh == "structured":
        x, y = lay([0.0, 1.0, 2.0], layout), lay([0.5, 1.5], layout)
        pos, roles = (x, y), {"x": x, "y": y}
        shape = (3, 2)
    else:
        p = lay(POS2, layout)
        pos, roles = p, {"pos": p}
        shape = (6,)
    if kind == "Field":
        f = lay(0.3 + 0.1 * np.arange(np.prod(shape)).reshape(shape), layout)
        roles["field"] = f
        obj = gs.field.Field(dim=2, mean=mean, normalizer=norm, trend=trend)
        return roles, (lambda: obj(pos, field=f, mesh_type=mesh))
    if kind == "SRF":
        obj = gs.SRF(model, mean=mean if mean is not None else 0.0, normalizer=norm, trend=trend, seed=3, mode_no=8, upscaling="coarse_graining" if opt.get("pv") else "no_scaling")
        kw = {}
        if opt.get("pv"):
            pv = lay(0.1 + 0.05 * np.arange(np.prod(shape)).reshape(shape), layout)
            roles["point_volumes"] = pv
            kw["point_volumes"] = pv
        return roles, (lambda: obj(pos, mesh_type=mesh, **kw))
    cp, cv = lay(POS2, layout), lay(VAL, layout)
    roles.update(cond_pos=cp, cond_val=cv)
    kr = gs.krige.Simple(model, cp, cv, mean=mean if mean is not None else 1.0, normalizer=norm, trend=trend)
    obj = gs.CondSRF(kr, seed=3, mode_no=8)
    return roles, (lambda: (obj(pos, mesh_type=mesh), obj(seed=5)))


def sc_fit(layout, opt):
    x = lay(np.linspace(0.25, 6.0, 12), layout)
    truth = gs.Exponential(dim=2, var=1.3, len_scale=1.7, nugget=0.2)
    y = lay(truth.variogram(x), layout)
    roles = {"x_data": x, "y_data": y}
    kw = {}
    if opt.get("weights") == "array":
        w = lay(1.0 / (1.0 + np.arange(12.0)), layout)
        roles["weights"] = w
        kw["weights"] = w
    elif opt.get("weights") == "inv":
        kw["weights"] = "inv"
    if opt.get("dirs"):
        y2 = lay([truth.variogram(x), truth.variogram(x / 0.5)], layout)
        roles["y_data"] = y2
        return roles, (lambda: gs.Exponential(dim=2).fit_variogram(x, y2, **kw))
    if opt.get("latlon"):
        return roles, (lambda: gs.Exponential(latlon=True, geo_scale=gs.KM_SCALE).fit_variogram(x, y, **kw))
    return roles, (lambda: gs.Exponential(dim=2).fit_variogram(x, y, sill=opt.get("sill"), **kw))


def sc_normalizer(layout, opt):
    n = {"ln": gs.normalizer.LogNormal(), "bc": gs.normalizer.BoxCox(lmbda=0.4), "bcs": gs.normalizer.BoxCoxShift(lmbda=0.5, shift=1.0), "yj": gs.normalizer.YeoJohnson(lmbda=0.3), "mod": gs.normalizer.Modulus(lmbda=1.4), "manly": gs.normalizer.Manly(lmbda=0.2)}[opt["n"]]
    data = np.array([0.2, 0.7, 1.3, 2.9, 4.1, -0.5 if opt["n"] in ("yj", "mod", "manly") else 0.9, np.nan])
    if opt.get("nd") == 2:
        data = data[:6].reshape(2, 3)
    d = lay(data, layout)
    fitdata = lay(np.asarray(data)[np.isfinite(data)], layout)
    roles = {"data": d, "fitdata": fitdata}
    fn = opt["fn"]

    def call():
        if fn == "fit":
            return n.fit(fitdata) if opt["n"] != "ln" else None
        if fn == "loglikelihood":
            return n.loglikelihood(d[np.isfinite(d)])
        return getattr(n, fn)(d)

    return roles, call


def sc_mnt_tools(layout, opt):
    mean, trend, norm = _mnt(opt)
    fnc = apply_mean_norm_trend if opt["fn"] == "apply" else remove_trend_norm_mean
    if opt.get("mesh") == "structured":
        x, y = lay([0.0, 1.0, 2.0], layout), lay([0.5, 1.5], layout)
        f = lay(0.5 + 0.1 * np.arange(6.0).reshape(3, 2), layout)
        roles = {"x": x, "y": y, "field": f}
        return roles, (lambda: fnc((x, y), f, mean=mean, normalizer=norm, trend=trend, mesh_type="structured", check_shape=opt.get("check", True)))
    p = lay(POS2, layout)
    if opt.get("stacked"):
        f = lay([0.5 + 0.1 * np.arange(6.0), 1.5 - 0.1 * np.arange(6.0)], layout)
    else:
        f = lay(0.5 + 0.1 * np.arange(6.0), layout)
    roles = {"pos": p, "field": f}
    return roles, (lambda: fnc(p, f, mean=mean, normalizer=norm, trend=trend, check_shape=opt.get("check", True), stacked=bool(opt.get("stacked"))))


def sc_array_tf(layout, opt):
    f = lay(np.array([-1.2, -0.3, 0.0, 0.4, 0.9, 1.7, 2.5]), layout)
    fn = opt["fn"]
    roles = {"field": f}
    calls = {
        "discrete": lambda: tf.array_discrete(f, roles["values"], thresholds="arithmetic"),
        "discrete_equal": lambda: tf.array_discrete(f, roles["values"], thresholds="equal", mean=0.3, var=1.2),
        "discrete_expl": lambda: tf.array_discrete(f, roles["values"], thresholds=[-0.5, 0.8]),  # (explicit thresholds are documented as a list)
        "discrete_wrapper": lambda: tf.discrete(roles["fld"], roles["values"], store="d", process=False),
        "boxcox": lambda: tf.array_boxcox(f, lmbda=0.5, shift=2.0),
        "zinnharvey": lambda: tf.array_zinnharvey(f, conn="high"),
        "force_moments": lambda: tf.array_force_moments(f, mean=1.0, var=2.0),
        "lognormal": lambda: tf.array_to_lognormal(f),
        "uniform": lambda: tf.array_to_uniform(f),
        "arcsin": lambda: tf.array_to_arcsin(f),
        "uquad": lambda: tf.array_to_uquad(f),
    }
    if fn.startswith("discrete"):
        roles["values"] = lay([2.0, -1.0, 0.5], layout)  # class values in no particular order
    if fn == "discrete_wrapper":
        fo = gs.field.Field(gs.Gaussian(dim=1, var=1.2), mean=0.3)
        fo(np.arange(7.0), field=f, store="field", post_process=False)
        roles["fld"] = fo
        roles = {k: v for k, v in roles.items() if k != "fld"}
        return roles, (lambda: fo.transform("discrete", values=roles["values"], store="d"))
    return roles, calls[fn]


def sc_model_fn(layout, opt):
    m = gs.Matern(dim=2, var=1.1, len_scale=1.4, nu=1.3, anis=0.6, angles=0.4 if opt.get("rot", True) else 0.0, nugget=0.1)
    fn = opt["fn"]
    if fn in ("cov_spatial", "vario_spatial", "cor_spatial", "isometrize", "anisometrize"):
        a = lay(POS2, layout)
    else:
        a = lay([0.0, 0.5, 1.0, 2.5, 7.0], layout)
    if fn.endswith("yadrenko"):
        m = gs.Matern(latlon=True, var=1.1, len_scale=0.6, nu=1.3)
        a = lay([0.0, 0.2, 1.0, 2.0, 3.1], layout)
    return {"arg": a}, (lambda: getattr(m, fn)(a))


def sc_geom(layout, opt):
    fn = opt["fn"]
    if fn == "latlon2pos":
        a = lay(LATLON, layout)
        return {"latlon": a}, (lambda: latlon2pos(a, radius=2.0))
    if fn == "pos2latlon":
        a = lay([[0.3, -0.5, 0.8], [0.4, 0.2, -0.1], [0.86, 0.84, 0.59]], layout)
        return {"pos": a}, (lambda: pos2latlon(a, radius=1.0))
    if fn == "generate_grid":
        x, y = lay([0.0, 1.0, 2.0], layout), lay([0.5, 1.5], layout)
        return {"x": x, "y": y}, (lambda: gs.tools.generate_grid([x, y]))
    if fn == "generate_st_grid":
        x, y, t = lay([0.0, 1.0, 2.0], layout), lay([0.5, 1.5], layout), lay([0.0, 10.0], layout)
        return {"x": x, "y": y, "t": t}, (lambda: gs.tools.generate_st_grid([x, y], t, mesh_type="structured"))
    if fn == "rotated_main_axes":
        a = lay([0.3, 0.2, 0.1], layout)
        return {"angles": a}, (lambda: gs.tools.rotated_main_axes(3, a))
    raise KeyError(fn)


def sc_helpers(layout, opt):
    """public methods of the field classes that take arrays and are also used internally"""
    fn = opt["fn"]
    model = gs.Exponential(dim=2, var=1.2, len_scale=2.0, nugget=opt.get("nugget", 0.0))
    cp, cv = lay(POS2, layout), lay(VAL, layout)
    if fn == "get_scaling":
        csrf = gs.CondSRF(gs.krige.Ordinary(model, cp, cv), seed=3, mode_no=8)
        kv = lay([0.0, 0.05, 0.25, 0.9, 1.3, 1.6], layout)
        return {"krige_var": kv, "cond_pos": cp, "cond_val": cv}, (lambda: csrf.get_scaling(kv, (6,)))
    if fn == "generator_call":
        gen = gs.field.generator.RandMeth(model, mode_no=8, seed=3)
        pos = lay(POS2, layout)
        return {"pos": pos}, (lambda: gen(pos))
    if fn == "generator_nugget":
        gen = gs.field.generator.RandMeth(model, mode_no=8, seed=3)
        return {}, (lambda: gen.get_nugget((6,)))
    if fn == "post_field":
        srf = gs.SRF(model, seed=3, mode_no=8, mean=0.5, trend=lambda *p: 0.1 * p[0])
        pos = lay(POS2, layout)
        srf.set_pos(pos)
        fld = lay([0.1, 0.2, 0.3, 0.4, 0.5, 0.6], layout)
        return {"pos": pos, "field": fld}, (lambda: srf.post_field(fld, name="x", process=True, save=True))
    if fn == "krige_set_condition":
        kr = gs.krige.Ordinary(model, cp, cv)
        cp2, cv2, ce = lay(np.array(POS2) + 0.3, layout), lay(np.array(VAL) * 2, layout), lay([0.01, 0.02, 0.03, 0.04, 0.05, 0.06], layout)
        return {"cond_pos": cp2, "cond_val": cv2, "cond_err": ce}, (lambda: (kr.set_condition(cp2, cv2, cond_err=ce), kr(lay(POS2, "c")))[1])
    if fn == "model_init":
        # arrays handed to a model constructor / setter stay the caller's: not written, and not kept by reference
        anis, ang, ls = lay([0.3, 0.4, 0.5], layout), lay([0.2, 0.1, 0.4, 0.3, 0.2, 0.1], layout), lay([2.0, 1.0, 4.0], layout)
        roles = {"anis": anis, "angles": ang, "len_scale": ls}

        def call():
            out = []
            for kw in (dict(dim=3, anis=anis[:2], angles=ang[:3]), dict(dim=4, anis=anis, angles=ang), dict(latlon=True, temporal=True, anis=anis), dict(temporal=True, spatial_dim=3, anis=anis, angles=ang), dict(dim=3, len_scale=ls)):
                m_ = gs.Exponential(**kw)
                out.append((m_, np.array(m_.anis), np.array(m_.angles)))
            m_ = gs.Exponential(dim=4)
            m_.anis = anis
            m_.angles = ang
            m_.len_scale = lay([2.0, 1.0, 4.0, 3.0], "c")
            out.append((m_, np.array(m_.anis), np.array(m_.angles)))
            return out

        return roles, call
    if fn == "krige_get_mean":
        kr = gs.krige.Ordinary(model, cp, cv)
        return {"cond_pos": cp, "cond_val": cv}, (lambda: kr.get_mean())
    if fn == "upscaling":
        # point volumes as the caller's array, every dimension, the function itself and through SRF (twice)
        d = opt.get("dim", 2)
        md = gs.Gaussian(dim=d, var=0.8, len_scale=1.5)
        pos = lay(np.array([POS2[0], POS2[1], VAL])[:d], layout)
        pv = lay(0.1 + 0.05 * np.arange(6), layout)
        srf = gs.SRF(md, seed=3, mode_no=8, upscaling="coarse_graining")

        def call():
            v1 = np.array(gs.field.upscaling.var_coarse_graining(md, pv))
            f1 = np.array(srf(pos, point_volumes=pv, seed=3))
            f2 = np.array(srf(pos, point_volumes=pv, seed=3))
            v2 = np.array(gs.field.upscaling.var_coarse_graining(md, pv))
            return {"__same__": [("var_coarse_graining repeated with the same point volumes", v1, v2), ("SRF with point volumes repeated", f1, f2)]}

        return {"pos": pos, "point_volumes": pv}, call
    if fn == "mesh_twice":
        # two realisations written to one meshio mesh under the same data name: the array handed out (and
        # stored) by the first call is not overwritten by the second
        import meshio

        pts = lay([[0.0, 0.0, 0.0], [1.0, 0.0, 0.0], [1.0, 1.0, 0.0], [0.0, 1.0, 0.0], [2.0, 0.5, 0.0]], layout)
        mesh = meshio.Mesh(pts, [("triangle", np.array([[0, 1, 2], [0, 2, 3], [1, 4, 2]]))])
        srf = gs.SRF(model, mode_no=8)

        def call():
            held = []
            for where in ("points", "centroids"):
                a = srf.mesh(mesh, points=where, name="fld", seed=1, store="real_0")
                c, st = np.array(a, copy=True), srf["real_0"]
                srf.mesh(mesh, points=where, name="fld", seed=2, store="real_1")
                held.append((where + ": array returned by the first mesh() call after the second", np.array(a), c))
                held.append((where + ": field stored by the first mesh() call after the second", np.array(st), c))
                held.append((where + ": field stored under the first name", np.array(srf["real_0"]), c))
            return {"__same__": held}

        return {"mesh_points": pts}, call
    raise KeyError(fn)


SCEN = {
    "public_helpers": sc_helpers,
    "vario_estimate": sc_vario,
    "vario_estimate_structured": sc_vario_struct,
    "vario_estimate_axis": sc_vario_axis,
    "standard_bins": sc_standard_bins,
    "krige": sc_krige,
    "field_objects": sc_srf,
    "fit_variogram": sc_fit,
    "normalizer": sc_normalizer,
    "mean_norm_trend_tools": sc_mnt_tools,
    "array_transform": sc_array_tf,
    "model_functions": sc_model_fn,
    "geometry": sc_geom,
}


def case_args(case):
    r = R()
    roles, call = SCEN[case["entry"]](case["layout"], case["opt"])
    extra = {"entry": case["entry"], "layout": case["layout"]}
    res = run_scenario(r, roles, call, extra)
    if isinstance(res, dict) and "__same__" in res:
        for what, a, b in res["__same__"]:
            r.true(what + ": unchanged", bool(np.array_equal(a, b)), info={"now": np.asarray(a).ravel()[:4].tolist(), "was": np.asarray(b).ravel()[:4].tolist()}, **extra)
    if case["opt"].get("fn") == "model_init" and res is not None and case["layout"] != "ro":
        for a in roles.values():
            a *= 1.7  # the caller goes on using its arrays
        for m_, an0, ag0 in res:
            r.true("model parameters do not follow later changes of the arrays they were given as", bool(np.array_equal(np.array(m_.anis), an0) and np.array_equal(np.array(m_.angles), ag0)), info={"anis": np.array(m_.anis).tolist(), "was": an0.tolist()}, **extra)
    return r.done(outcome=sorted(roles), sub={"roles": len(roles)})


def arg_cases(tier):
    cases = []
    L = ["c", "f", "ro"]

    def add(entry, **axes):
        for opt in product_cases(**axes) if axes else [{}]:
            for layout in L:
                cases.append({"entry": entry, "layout": layout, "opt": opt})

    mnt = dict(mean=["none", "const", "call"], trend=["none", "call"], norm=["none", "yj"])
    add("vario_estimate", latlon=[False], nfields=[1, 2], mask=[False, True], fmask=[False, True], no_data=[False, True], direction=[False, True], sampling=[False, True], **mnt)
    add("vario_estimate", latlon=[True], geo_scale=[1.0, "km", "deg", 17.3], nfields=[1, 2], mask=[False, True], mean=["none", "call"], trend=["none", "call"], norm=["none"])
    add("vario_estimate_structured", **mnt)
    add("vario_estimate_axis", kind=["nd", "masked"], nan=[False, True], no_data=[False, True], axis=["x", "y"], est=["matheron", "cressie"])
    add("standard_bins", latlon=[False, True])
    add("krige", variant=["Simple", "Ordinary", "Universal", "ExtDrift", "Detrended"], cond_err=[False, True], chunk=[False, True], **mnt)
    add("field_objects", obj=["Field", "SRF", "CondSRF"], mesh=["unstructured", "structured"], pv=[False, True], **mnt)
    add("fit_variogram", weights=[None, "inv", "array"], dirs=[False, True], latlon=[False, True], sill=[None, 1.5])
    add("normalizer", n=["ln", "bc", "bcs", "yj", "mod", "manly"], fn=["normalize", "denormalize", "derivative", "fit", "loglikelihood"], nd=[1, 2])
    add("mean_norm_trend_tools", fn=["apply", "remove"], mesh=["unstructured", "structured"], check=[True, False], stacked=[False, True], **mnt)
    add("array_transform", fn=["discrete", "discrete_equal", "discrete_expl", "discrete_wrapper", "boxcox", "zinnharvey", "force_moments", "lognormal", "uniform", "arcsin", "uquad"])
    add("model_functions", fn=["variogram", "covariance", "correlation", "cor", "vario_nugget", "cov_nugget", "cov_spatial", "vario_spatial", "cor_spatial", "isometrize", "anisometrize", "spectrum", "spectral_density", "spectral_rad_pdf", "cov_yadrenko", "vario_yadrenko", "cor_yadrenko"], rot=[True, False])
    add("public_helpers", fn=["get_scaling", "generator_call", "generator_nugget", "post_field", "krige_set_condition", "krige_get_mean", "model_init"], nugget=[0.0, 0.3])
    add("public_helpers", fn=["upscaling"], dim=[1, 2, 3])
    add("public_helpers", fn=["mesh_twice"])
    add("geometry", fn=["latlon2pos", "pos2latlon", "generate_grid", "generate_st_grid", "rotated_main_axes"])
    out = []
    for c in cases:
        o = c["opt"]
        if c["entry"] == "mean_norm_trend_tools" and o.get("mesh") == "structured" and o.get("stacked"):
            continue
        if c["entry"] == "fit_variogram" and o.get("dirs") and (o.get("latlon") or o.get("sill")):
            continue
        if c["entry"] == "fit_variogram" and o.get("latlon") and o.get("sill"):
            continue
        if c["entry"] == "field_objects" and o.get("pv") and o.get("obj") != "SRF":
            continue
        if c["entry"] == "vario_estimate_axis" and o.get("kind") == "masked" and o.get("no_data"):
            continue
        if c["entry"] == "krige" and o.get("variant") == "Detrended" and (o.get("mean") != "none" or o.get("norm") != "none"):
            continue
        if c["entry"] == "krige" and o.get("variant") != "Simple" and o.get("mean") != "none":
            continue
        out.append(c)
    return out


# ---------------------------------------------------------------------------
# histories on field objects
def make_obj(cfg):
    mean, trend, norm = _mnt(cfg)
    model = gs.Gaussian(dim=2, var=0.8, len_scale=1.5, nugget=cfg.get("nugget", 0.0))
    kind = cfg["obj"]
    if kind == "Field":
        return gs.field.Field(model, mean=mean if mean is not None else 0.0, normalizer=norm, trend=trend)
    if kind == "SRF":
        return gs.SRF(model, mean=mean if mean is not None else 0.0, normalizer=norm, trend=trend, seed=3, mode_no=8)
    cp, cv = np.array(POS2), np.array(VAL)
    kr = gs.krige.Simple(model, cp, cv, mean=mean if mean is not None else 1.0, normalizer=norm, trend=trend)
    if kind == "Krige":
        return kr
    return gs.CondSRF(kr, seed=3, mode_no=8)


HPOS = np.array([[0.0, 1.0, 2.5, 3.0, 4.2], [0.5, 2.0, 1.0, 4.0, 3.3]])


def hist_ops(cfg):
    ops = []
    A = ops.append
    for name in ("field", "f2"):
        for pp in (True, False):
            A({"k": "call", "store": name, "post": pp})
    A({"k": "call", "store": False, "post": True})
    # another request of the same size at other positions / of another quantity (work space of equal shape)
    A({"k": "call", "store": "f2", "post": False, "pos": "alt"})
    A({"k": "call", "store": "f2", "post": True, "pos": "alt"})
    if cfg["obj"] == "Krige":
        A({"k": "call", "store": "mf", "post": False, "only_mean": True})
    for method, kw in [("zinnharvey", {}), ("normal_to_lognormal", {}), ("normal_force_moments", {}), ("binary", {}), ("discrete", {"values": [0.0, 1.0, 2.0]}), ("normal_to_uniform", {}), ("function", {})]:
        for src, dst, proc in [("field", "t1", False), ("field", "t1", True), ("field", True, True), ("f2", "t2", True), ("t1", "t2", False)]:
            if method not in ("zinnharvey", "function", "normal_force_moments") and (src != "field" or dst is True):
                continue
            A({"k": "transform", "m": method, "kw": kw, "field": src, "store": dst, "process": proc, "keep_mean": True})
    A({"k": "transform", "m": "zinnharvey", "kw": {}, "field": "field", "store": "t1", "process": True, "keep_mean": False})
    A({"k": "transform", "m": "function", "kw": {}, "field": "field", "store": "t1", "process": True, "keep_mean": False})
    A({"k": "delete", "name": "f2"})
    return ops


def case_store_hist(case):
    cfg, hist = case["cfg"], case["hist"]
    r = R()
    obj = make_obj(cfg)
    returned = []  # (label, array, snapshot)
    stored_snap = {}
    krige_snap = {}
    cur_pos = None
    kind = cfg["obj"]
    last_fail_extra = {}
    for i, op in enumerate(hist):
        last = i == len(hist) - 1
        target = None
        try:
            if op["k"] == "call":
                kw = dict(store=op["store"], post_process=op["post"])
                HP = HPOS if op.get("pos") != "alt" else HPOS[::-1] * 0.8 + 0.35
                if kind == "Field":
                    out = obj(HP, field=0.2 + 0.1 * np.arange(5.0), **kw)
                elif kind == "SRF":
                    out = obj(HP, seed=7, **kw)
                elif kind == "Krige":
                    out = obj(HP, store=[op["store"], False] if op["store"] is not False else False, post_process=op["post"], only_mean=bool(op.get("only_mean")))
                    out = out[0] if isinstance(out, tuple) else out
                else:
                    # (raw field and raw kriging field under their default names: the reuse path of later calls)
                    out = obj(HP, seed=7, store=[op["store"], True, True] if op["store"] is not False else False, post_process=op["post"])
                target = op["store"] if op["store"] is not False else None
            elif op["k"] == "transform":
                if op["field"] not in obj.field_names:
                    return r.done(skip="transform of a field that does not exist")
                kw = dict(op["kw"])
                if op["m"] == "function":
                    kw["function"] = lambda x: 2.0 * x + 1.0
                if op["m"] in ("zinnharvey", "function", "normal_to_lognormal", "normal_force_moments", "normal_to_uniform"):
                    if op["m"] in ("function",) or op["process"]:
                        kw["keep_mean"] = op["keep_mean"]
                out = obj.transform(op["m"], field=op["field"], store=op["store"], process=op["process"], **kw)
                target = op["field"] if op["store"] is True else op["store"]
            elif op["k"] == "delete":
                if op["name"] not in obj.field_names:
                    return r.done(skip="delete of a field that does not exist")
                del obj[op["name"]]
                out = None
                target = op["name"]
        except (ValueError, TypeError) as e:
            # refusals (e.g. 'need a normal field but there is a normalizer defined'; callable mean
            # handed to a transformation that needs a number)
            return r.done(skip="operation refused by the library: " + str(e)[:60])
        if last:
            extra = {"obj": kind, "opk": op["k"], "method": op.get("m", ""), "process": op.get("process", None), "entry": "history"}
            for label, arr, sn in returned:
                r.true("array returned earlier is unchanged", snap(arr) == sn, info=f"returned by step {label} changed after {op}", **extra)
            # (a request at other positions deletes the stored fields - documented; arrays handed out earlier stay)
            moved = op["k"] == "call" and (op.get("pos", "base") != cur_pos)
            for name, sn in ({} if moved else stored_snap).items():
                if name == target:
                    continue
                if name in obj.field_names:
                    r.true("field stored earlier under another name is unchanged", snap(obj[name]) == sn, info=f"stored field '{name}' changed after {op}", changed=name, **extra)
                else:
                    r.fail("field stored earlier disappeared", name, "still stored", changed=name, **extra)
            # fields kept by the kriging instance behind a conditioned field (kriging variance) are results too
            for name, sn in ({} if moved else krige_snap).items():
                if name in obj.krige.field_names and not (op["k"] == "call"):
                    r.true("field stored earlier in the kriging instance is unchanged", snap(obj.krige[name]) == sn, info=f"krige field '{name}' changed after {op}", changed="krige:" + name, **extra)
        if op["k"] == "call":
            cur_pos = op.get("pos", "base")
        if out is not None:
            returned.append((i, out, snap(out)))
        if kind == "CondSRF":
            # every array stored in the kriging instance is also an 'array returned earlier': keep the object
            for name in obj.krige.field_names:
                arr = obj.krige[name]
                if not any(a is arr for _, a, _ in returned):
                    returned.append((f"{i}:krige.{name}", arr, snap(arr)))
            krige_snap = {n: snap(obj.krige[n]) for n in obj.krige.field_names}
        stored_snap = {n: snap(obj[n]) for n in obj.field_names}
    key = json.dumps({"names": sorted(obj.field_names), "n": len(hist), "h": [json.dumps(o, sort_keys=True) for o in hist]})
    return r.done(outcome=key)


def hist_configs(tier):
    cfgs = []
    for obj in ["Field", "SRF", "Krige", "CondSRF"]:
        cfgs.append({"obj": obj, "mean": "const", "trend": "none", "norm": "none"})
        cfgs.append({"obj": obj, "mean": "const", "trend": "call", "norm": "none"})
        if tier != "quick" or obj in ("SRF",):
            cfgs.append({"obj": obj, "mean": "call", "trend": "const", "norm": "yj"})
        if obj in ("Krige", "CondSRF"):
            cfgs.append({"obj": obj, "mean": "const", "trend": "none", "norm": "none", "nugget": 0.3})
    return cfgs


GROUPS = {"arguments": case_args, "store_bfs": case_store_hist}


def run(chk):
    cases = arg_cases(chk.tier)
    chk.run("arguments", case_args, cases, rule="entry point x option combination x array layout (C-contiguous float64 in target shape / Fortran order / read-only); every array argument snapshotted before and compared after the call")
    chk.bfs("store_bfs", case_store_hist, hist_configs(chk.tier), hist_ops, 2 if chk.tier == "quick" else 3, rule="BFS over histories of call(store=name, post_process) / transform(method, field=a, store=b|inplace, process, keep_mean) / delete on Field, SRF, Krige and CondSRF objects; all arrays returned earlier and all stored fields other than the operation's named target must be bit-identical after every step")
    chk.assume("state key of the history search is the history itself (no merging): every history up to the depth bound is executed")
    chk.assume("entry points and option combinations as enumerated; export helpers (vtk) and plotting are not explored")
