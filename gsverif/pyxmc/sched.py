"""Stateless schedule exploration of the translated prange kernels.

The translated Python source of a kernel is rewritten (ast): the body of every
``for i in __prange__(...)`` loop becomes a generator that yields before each read and each
write of an array that is written anywhere inside the parallel loop (``a[i] += e`` is split
into a read and a write scheduling point); scalars assigned in the body are locals of the
generator, i.e. thread private, as in Cython.  ``__run_parallel__`` distributes the
iterations over T model threads (static blocks or cyclic) and lets a scheduler pick the next
thread at every scheduling point; a parallel loop ends with a barrier.  The explorer
re-executes the kernel for every choice sequence up to a preemption bound (CHESS style) and
compares the result with the sequential one.  Independently the per-thread footprints of one
execution are collected; if no two threads touch the same element with at least one write,
all interleavings are equivalent (one Mazurkiewicz trace) and their number is reported.
"""
import ast
import math
import textwrap

import numpy as np

from . import translate as T


class _Rewriter(ast.NodeTransformer):
    def __init__(self):
        self.counter = 0
        self.regions = 0

    def visit_For(self, node):
        self.generic_visit(node)
        if isinstance(node.iter, ast.Call) and isinstance(node.iter.func, ast.Name) and node.iter.func.id == "__prange__":
            self.regions += 1
            written = set()
            for n in ast.walk(ast.Module(body=node.body, type_ignores=[])):
                tgt = None
                if isinstance(n, ast.AugAssign):
                    tgt = n.target
                elif isinstance(n, ast.Assign):
                    for t in n.targets:
                        if isinstance(t, ast.Subscript):
                            tgt = t
                if isinstance(tgt, ast.Subscript) and isinstance(tgt.value, ast.Name):
                    written.add(tgt.value.id)
            body = [self._instrument(s, written) for s in node.body]
            body = [x for b in body for x in (b if isinstance(b, list) else [b])]
            fname = f"__body_{self.counter}__"
            self.counter += 1
            if not isinstance(node.target, ast.Name):
                raise T.Unsupported("prange target")
            fdef = ast.FunctionDef(
                name=fname,
                args=ast.arguments(posonlyargs=[], args=[ast.arg(arg=node.target.id)], kwonlyargs=[], kw_defaults=[], defaults=[]),
                body=body + [ast.If(test=ast.Constant(False), body=[ast.Expr(ast.Yield(value=None))], orelse=[])],
                decorator_list=[],
                type_params=[],
            )
            call = ast.Expr(ast.Call(func=ast.Name("__run_parallel__", ast.Load()), args=[ast.Name(fname, ast.Load()), ast.Call(func=ast.Name("range", ast.Load()), args=node.iter.args, keywords=[])], keywords=[]))
            return [fdef, call]
        return node

    def _idx_tuple(self, sub):
        sl = sub.slice
        return sl if isinstance(sl, ast.Tuple) else ast.Tuple(elts=[sl], ctx=ast.Load())

    def _yield(self, kind, sub):
        return ast.Expr(ast.Yield(value=ast.Tuple(elts=[ast.Constant(kind), ast.Constant(sub.value.id), self._idx_tuple(sub)], ctx=ast.Load())))

    def _instrument(self, stmt, written):
        """insert scheduling points in front of accesses to shared written arrays"""
        if isinstance(stmt, (ast.For, ast.While, ast.If, ast.With)):
            for field in ("body", "orelse"):
                seq = getattr(stmt, field, None)
                if seq:
                    new = []
                    for s in seq:
                        r = self._instrument(s, written)
                        new.extend(r if isinstance(r, list) else [r])
                    setattr(stmt, field, new)
            # reads in the loop header / condition
            pre = self._reads(stmt.iter if isinstance(stmt, ast.For) else getattr(stmt, "test", None), written)
            return pre + [stmt]
        if isinstance(stmt, ast.AugAssign) and isinstance(stmt.target, ast.Subscript) and isinstance(stmt.target.value, ast.Name) and stmt.target.value.id in written:
            sub = stmt.target
            tmp, val = f"__t{id(stmt)}", f"__v{id(stmt)}"
            load = ast.Subscript(value=sub.value, slice=sub.slice, ctx=ast.Load())
            return (
                self._reads(stmt.value, written)
                + [
                    ast.Assign(targets=[ast.Name(tmp, ast.Store())], value=stmt.value),
                    self._yield("r", sub),
                    ast.Assign(targets=[ast.Name(val, ast.Store())], value=load),
                    self._yield("w", sub),
                    ast.Assign(targets=[ast.Subscript(value=sub.value, slice=sub.slice, ctx=ast.Store())], value=ast.BinOp(left=ast.Name(val, ast.Load()), op=stmt.op, right=ast.Name(tmp, ast.Load()))),
                ]
            )
        if isinstance(stmt, ast.Assign):
            pre = self._reads(stmt.value, written)
            for t in stmt.targets:
                if isinstance(t, ast.Subscript) and isinstance(t.value, ast.Name) and t.value.id in written:
                    pre.append(self._yield("w", t))
            return pre + [stmt]
        if isinstance(stmt, (ast.Expr, ast.Return)):
            return self._reads(stmt.value, written) + [stmt]
        return [stmt]

    def _reads(self, expr, written):
        out = []
        if expr is None:
            return out
        for n in ast.walk(expr):
            if isinstance(n, ast.Subscript) and isinstance(n.value, ast.Name) and n.value.id in written and isinstance(n.ctx, ast.Load):
                out.append(self._yield("r", n))
        return out


def rewrite(py_src, fname):
    """return python source of kernel ``fname`` with parallel loops turned into scheduled regions"""
    tree = ast.parse(py_src)
    rw = _Rewriter()
    for node in tree.body:
        if isinstance(node, ast.FunctionDef) and node.name == fname:
            new = rw.visit(node)
            ast.fix_missing_locations(new)
    if rw.regions == 0:
        raise T.Unsupported(f"no prange loop found in {fname}")
    ast.fix_missing_locations(tree)
    return ast.unparse(tree), rw.regions


class Scheduler:
    """drives the model threads of every parallel region of one kernel execution"""

    def __init__(self, nthreads, assign, prefix=()):
        self.T, self.assign = nthreads, assign
        self.prefix = list(prefix)
        self.choices = []  # taken choice index at every scheduling point
        self.points = []  # (enabled list, running thread or None)
        self.footprints = []  # per region: list over threads of access sets
        self.region_counts = []  # per region: scheduling points per thread
        self.npoints = 0

    def partition(self, iters):
        iters = list(iters)
        n = len(iters)
        if self.assign == "block":
            size = -(-n // self.T) if n else 0
            return [iters[t * size : (t + 1) * size] for t in range(self.T)]
        return [iters[t :: self.T] for t in range(self.T)]

    def run_parallel(self, body, iters):
        parts = self.partition(iters)

        def thread(its):
            for it in its:
                yield from body(it)

        gens = [thread(p) for p in parts]
        pending = [None] * self.T  # access announced by the thread, executed when it is resumed
        alive = []
        fp = [set() for _ in range(self.T)]
        cnt = [0] * self.T
        for t, g in enumerate(gens):
            try:
                pending[t] = next(g)
                alive.append(t)
            except StopIteration:
                pass
        running = None
        while alive:
            enabled = ([running] if running in alive else []) + [t for t in alive if t != running]
            k = len(self.points)
            if k < len(self.prefix):
                c = self.prefix[k]
                if c >= len(enabled):
                    raise RuntimeError("schedule replay diverged (choice out of range)")
            else:
                c = 0
            self.points.append((list(enabled), running if running in alive else None))
            self.choices.append(c)
            t = enabled[c]
            running = t
            acc = pending[t]
            if acc is not None:
                kind, name, idx = acc
                fp[t].add((kind, name, tuple(int(i) for i in idx)))
            self.npoints += 1
            cnt[t] += 1
            try:
                pending[t] = next(gens[t])
            except StopIteration:
                alive.remove(t)
        self.footprints.append(fp)  # implicit barrier: region ends when all threads are done
        self.region_counts.append(cnt)

    def independent(self):
        """no two threads of a region access the same element with at least one write"""
        for fp in self.footprints:
            for a in range(len(fp)):
                for b in range(a + 1, len(fp)):
                    wa = {(n, i) for (k, n, i) in fp[a] if k == "w"}
                    wb = {(n, i) for (k, n, i) in fp[b] if k == "w"}
                    aa = {(n, i) for (k, n, i) in fp[a]}
                    ab = {(n, i) for (k, n, i) in fp[b]}
                    if (wa & ab) or (wb & aa):
                        return False, sorted((wa & ab) | (wb & aa))[:3]
        return True, []


def make_kernel(py_src, fname, extra_ns=None):
    src, regions = rewrite(py_src, fname)
    ns = T.namespace(extra_ns)
    holder = {}
    ns["__run_parallel__"] = lambda body, iters: holder["s"].run_parallel(body, iters)
    exec(compile(src, f"<scheduled {fname}>", "exec"), ns)

    def run(args, sched):
        holder["s"] = sched
        return ns[fname](*args)

    return run, regions


def _canon(res):
    if isinstance(res, tuple):
        return tuple(np.asarray(r).tobytes() for r in res)
    return (np.asarray(res).tobytes(),)


def explore(run, make_args, nthreads, assign, bound, max_exec=20000):
    """enumerate all schedules with at most ``bound`` preemptions; returns statistics"""
    outcomes = {}
    executed = 0
    steps = 0
    capped = False
    stack = [[]]
    first = None
    while stack:
        prefix = stack.pop()
        s = Scheduler(nthreads, assign, prefix)
        res = run(make_args(), s)
        executed += 1
        steps += s.npoints
        key = _canon(res)
        outcomes.setdefault(key, list(s.choices))
        if first is None:
            first = s
        # preemptions used before each point
        pre = 0
        pres = []
        for (enabled, running), c in zip(s.points, s.choices):
            pres.append(pre)
            if running is not None and enabled[c] != running:
                pre += 1
        for i in range(len(prefix), len(s.points)):
            enabled, running = s.points[i]
            for alt in range(1, len(enabled)):
                cost = pres[i] + (1 if running is not None else 0)
                if cost > bound:
                    continue
                stack.append(list(s.choices[:i]) + [alt])
        if executed >= max_exec:
            capped = bool(stack)
            break
    return {"executions": executed, "steps": steps, "outcomes": outcomes, "capped": capped, "points": first.npoints if first else 0, "first": first}


def interleavings(first):
    """number of interleavings of the recorded scheduling points (product over regions of multinomials)"""
    total = 1
    for cnt in first.region_counts:
        n = sum(cnt)
        m = math.factorial(n)
        for c in cnt:
            m //= math.factorial(c)
        total *= m
    return total
