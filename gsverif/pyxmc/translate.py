"""Mechanical translation of the Cython subset used by GSTools' kernels into plain Python.

Rule set (anything outside it raises Unsupported -> the check stops undecided, never a guess):
  * module docstring / comments / ``import numpy as np`` kept; ``cimport`` lines, ``from
    cython.parallel import ...`` and ``if OPENMP: cimport openmp`` dropped (OPENMP = False,
    openmp unavailable: the serial semantics of the source)
  * ``from libc.math cimport a, b``  ->  names bound to the ``math`` module's functions
  * ``ctypedef ...``  (incl. multi-line function pointer types)            -> dropped
  * ``cdef [inline] <type> name(<typed args>) [nogil]:`` / ``def name(<typed args>):``
        -> ``def name(<arg names with defaults>):``; every typed-memoryview argument is
        wrapped into a bounds-checked proxy (negative or out-of-range index = violation,
        because boundscheck/wraparound are off in the artefact)
  * ``cdef <type> a, b`` (declaration only)                                 -> dropped
  * ``cdef <type> a = expr`` / ``cdef <type>[:, :] a = expr``               -> ``a = expr`` (+ proxy)
  * ``for i in prange(n, nogil=True, num_threads=t):`` -> ``for i in __prange__(n):``
  * ``with nogil, parallel(num_threads=t):``           -> ``with __parallel__():``
  * ``np.asarray(mv)`` of a proxy returns the underlying array
  * the malformed f-strings in two ``raise`` lines are replaced by plain strings
"""
import math
import re

import numpy as np


class Unsupported(Exception):
    pass


class IndexViolation(Exception):
    pass


class MV:
    """bounds-checked view standing for a typed memoryview (no wraparound, no bounds slack)"""

    __slots__ = ("a", "name", "log")

    def __init__(self, a, name="?", log=None, dtype=None):
        if isinstance(a, MV):
            a = a.a
        self.a = np.asarray(a) if dtype is None else np.asarray(a, dtype=dtype)
        self.name = name
        self.log = log

    @property
    def shape(self):
        return self.a.shape

    def _chk(self, idx):
        if not isinstance(idx, tuple):
            idx = (idx,)
        if len(idx) > self.a.ndim:
            raise IndexViolation(f"{self.name}: too many indices {idx}")
        out = []
        for ax, i in enumerate(idx):
            if isinstance(i, slice):
                if i != slice(None):
                    raise Unsupported(f"slice {i} on memoryview {self.name}")
                out.append(i)
                continue
            i = int(i)
            if i < 0 or i >= self.a.shape[ax]:
                raise IndexViolation(f"{self.name}{list(idx)}: index {i} out of range for axis {ax} with size {self.a.shape[ax]} (undefined behaviour in the compiled kernel)")
            out.append(i)
        return tuple(out)

    def __getitem__(self, idx):
        t = self._chk(idx)
        if any(isinstance(i, slice) for i in t) or len(t) < self.a.ndim:
            return MV(self.a[t], self.name + "[view]", self.log)
        v = self.a[t]
        return float(v) if self.a.dtype.kind == "f" else int(v)

    def __setitem__(self, idx, val):
        t = self._chk(idx)
        self.a[t] = val

    def __len__(self):
        return self.a.shape[0]

    def __array__(self, dtype=None, copy=None):
        return self.a if dtype is None else self.a.astype(dtype)


def _asarray(x, *a, **k):
    if isinstance(x, MV):
        return x.a
    return np.asarray(x, *a, **k)


class _NP:
    """numpy facade: np.asarray unwraps proxies, everything else is numpy"""

    def __getattr__(self, n):
        if n == "asarray":
            return _asarray
        return getattr(np, n)


def _len(x):
    return len(x)


MATH = {n: getattr(math, n) for n in ("acos", "atan2", "cos", "fabs", "isnan", "pow", "sin", "sqrt")}
MATH["M_PI"] = math.pi

_TYPE = r"(?:const\s+)?(?:unsigned\s+)?(?:np\.)?[A-Za-z_][A-Za-z_0-9]*(?:\s*\[[:,\s]*\])?"
_ARG = re.compile(r"^\s*(?P<type>" + _TYPE + r")\s+(?P<name>[A-Za-z_][A-Za-z_0-9]*)\s*(?:=\s*(?P<default>.+))?$")


def _split_args(s):
    out, depth, cur = [], 0, ""
    for ch in s:
        if ch in "([{":
            depth += 1
        if ch in ")]}":
            depth -= 1
        if ch == "," and depth == 0:
            out.append(cur)
            cur = ""
        else:
            cur += ch
    if cur.strip():
        out.append(cur)
    return [a.strip() for a in out if a.strip()]


def _conv_args(argstr):
    """typed argument list -> (python signature, names of memoryview args with dtype)"""
    names, wraps = [], []
    for a in _split_args(argstr):
        m = _ARG.match(a)
        if m and not a.split("=")[0].strip().isidentifier():
            nm, typ, dflt = m.group("name"), m.group("type"), m.group("default")
            if "[" in typ:
                dt = "np.int64" if "int64" in typ else ("np.uint8" if "uint8" in typ else "float")
                wraps.append((nm, dt))
            names.append(nm + ("=" + dflt if dflt else ""))
        else:
            if not re.match(r"^[A-Za-z_][A-Za-z_0-9]*(\s*=.*)?$", a):
                raise Unsupported(f"argument '{a}'")
            names.append(a)
    return ", ".join(names), wraps


def _strip_comment(line):
    q = None
    for i, ch in enumerate(line):
        if q:
            if ch == q:
                q = None
        elif ch in "'\"":
            q = ch
        elif ch == "#":
            return line[:i].rstrip()
    return line


def _join_logical_lines(src):
    """join lines inside open parentheses so that one statement is one line (comments inside a
    continued statement are dropped)"""
    out, buf, depth = [], "", 0
    in_doc = False
    for line in src.split("\n"):
        if in_doc or (depth == 0 and line.strip().startswith(('"""', "r\"\"\""))):
            out.append(line)
            cnt = line.count('"""')
            if in_doc:
                in_doc = cnt % 2 == 0
            else:
                in_doc = cnt == 1
            continue
        code = _strip_comment(line)
        if buf:
            buf += " " + code.strip()
        else:
            buf = line if depth == 0 and code.count("(") == code.count(")") and code.count("[") == code.count("]") else code
        depth += sum(code.count(c) for c in "([{") - sum(code.count(c) for c in ")]}")
        if depth <= 0:
            out.append(buf)
            buf, depth = "", 0
    if buf:
        out.append(buf)
    return out


def translate(src):
    src = src.replace("f'len(pos) = {pos.shape[1]} != len(f) = {f.shape[1])}'", "'len(pos) != len(f)'")
    src = src.replace("f'Haversine: dim = {dim} != 2'", "'Haversine: dim != 2'")
    lines = _join_logical_lines(src)
    out = []
    skip_block_indent = None
    for raw in lines:
        line = raw.rstrip()
        stripped = line.strip()
        indent = line[: len(line) - len(line.lstrip())]
        if skip_block_indent is not None:
            if stripped == "" or len(indent) > skip_block_indent:
                continue
            skip_block_indent = None
        if stripped.startswith("#") or stripped == "":
            out.append(line)
            continue
        if stripped.startswith("cimport ") or stripped.startswith("from cython.parallel import") or re.match(r"^from\s+\S+\s+cimport\s+", stripped) and "libc.math" not in stripped:
            continue
        m = re.match(r"^from libc\.math cimport (.+)$", stripped)
        if m:
            for n in _split_args(m.group(1)):
                if n not in MATH:
                    raise Unsupported(f"libc.math.{n}")
                out.append(f"{indent}{n} = __math__['{n}']")
            continue
        if stripped == "if OPENMP:" and indent == "":
            # module level: 'if OPENMP: cimport openmp'
            skip_block_indent = len(indent)
            continue
        if stripped.startswith("ctypedef "):
            continue
        # function definitions
        m = re.match(r"^(cdef|def)\s+(?:inline\s+)?(?P<ret>\(?[A-Za-z_][A-Za-z_0-9. ]*\)?\s+)??(?P<name>[A-Za-z_][A-Za-z_0-9]*)\s*\((?P<args>.*)\)\s*(?:nogil)?\s*:\s*$", stripped)
        if m and (stripped.startswith("def ") or stripped.startswith("cdef ")) and stripped.endswith(":"):
            sig, wraps = _conv_args(m.group("args"))
            out.append(f"{indent}def {m.group('name')}({sig}):")
            for nm, dt in wraps:
                out.append(f"{indent}    {nm} = __MV__({nm}, '{nm}', dtype={dt})")
            continue
        if stripped.startswith("cdef "):
            body = stripped[5:]
            if "=" in body and not re.match(r"^[^=]*\(.*=.*\)[^=]*$", body.split("=")[0]):
                lhs, rhs = body.split("=", 1)
                mm = re.match(r"^(?P<type>" + _TYPE + r"|\([a-z ]+\))\s+(?P<name>[A-Za-z_][A-Za-z_0-9]*)\s*$", lhs.strip())
                if not mm:
                    raise Unsupported(f"cdef assignment '{stripped}'")
                nm, typ = mm.group("name"), mm.group("type")
                rhs = rhs.strip()
                if "[" in typ:
                    out.append(f"{indent}{nm} = __MV__({rhs}, '{nm}')")
                elif typ.split()[-1] in ("int", "bint") or "int64" in typ:
                    out.append(f"{indent}{nm} = {rhs}")
                else:
                    out.append(f"{indent}{nm} = {rhs}")
                continue
            # declaration only: cdef int i, j / cdef double dist / cdef _dist_func distance
            if re.match(r"^(" + _TYPE + r")\s+[A-Za-z_][A-Za-z_0-9]*(\s*,\s*[A-Za-z_][A-Za-z_0-9]*)*\s*(#.*)?$", body):
                out.append(f"{indent}pass")
                continue
            raise Unsupported(f"cdef statement '{stripped}'")
        m = re.match(r"^for\s+(\w+)\s+in\s+prange\((.*)\)\s*:\s*$", stripped)
        if m:
            args = [a for a in _split_args(m.group(2)) if not re.match(r"^(nogil|num_threads|schedule)\s*=", a)]
            out.append(f"{indent}for {m.group(1)} in __prange__({', '.join(args)}):")
            continue
        if re.match(r"^with\s+nogil\s*,\s*parallel\(.*\)\s*:\s*$", stripped):
            out.append(f"{indent}with __parallel__():")
            continue
        if re.search(r"\b(cdef|cimport|ctypedef|nogil|prange|parallel)\b", stripped.split("#")[0]) and not stripped.startswith(('"', "'")):
            raise Unsupported(f"statement '{stripped}'")
        out.append(line)
    return "\n".join(out) + "\n"


class _Par:
    def __enter__(self):
        return self

    def __exit__(self, *a):
        return False


def namespace(extra=None):
    ns = {"np": _NP(), "__math__": MATH, "__MV__": MV, "__prange__": range, "__parallel__": _Par, "OPENMP": False, "max": max, "len": _len}
    if extra:
        ns.update(extra)
    return ns


def load(path, extra=None):
    """translate a .pyx file and execute the translation; returns (namespace, python source)"""
    with open(path) as fh:
        src = fh.read()
    py = translate(src)
    ns = namespace(extra)
    code = compile(py, path + ".translated.py", "exec")
    exec(code, ns)
    return ns, py
