#!/bin/bash
# tools/confirm_seed.sh <worktree> <MUT_dir (relative to worktree or absolute)>
# confirms: patch applies, full test suite passes with it, demo fails with it and passes without
wt="$1"; mut="$2"; cd "$wt" || exit 2
case "$mut" in /*) mdir="$mut";; *) mdir="$wt/$mut";; esac
export PYTHONPATH="$wt/src"
git checkout -q -- . ;
git apply "$mdir/patch.diff" || { echo "RESULT $wt $mut: patch does not apply"; exit 1; }
t=$(/venv/bin/python -m pytest -q -p no:cacheprovider -n 6 tests 2>&1 | tail -1)
/venv/bin/python "$mdir/demo.py" >/dev/null 2>&1; d_with=$?
git apply -R "$mdir/patch.diff"
/venv/bin/python "$mdir/demo.py" >/dev/null 2>&1; d_without=$?
echo "RESULT $wt $mut: tests[$t] demo_with=$d_with demo_without=$d_without"
