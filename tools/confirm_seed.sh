#!/bin/bash
# tools/confirm_seed.sh <worktree> <MUT_dir_name>   -> confirms: patch applies, full test suite passes with it, demo fails with it and passes without
wt="$1"; mut="$2"; cd "$wt" || exit 2
export PYTHONPATH="$wt/src"
git checkout -q -- . ; 
git apply "$mut/patch.diff" || { echo "RESULT $wt $mut: patch does not apply"; exit 1; }
t=$(/venv/bin/python -m pytest -q -p no:cacheprovider -n 6 tests 2>&1 | tail -1)
/venv/bin/python "$mut/demo.py" >/dev/null 2>&1; d_with=$?
git apply -R "$mut/patch.diff"
/venv/bin/python "$mut/demo.py" >/dev/null 2>&1; d_without=$?
echo "RESULT $wt $mut: tests[$t] demo_with=$d_with demo_without=$d_without"
