#!/venv/bin/python
"""Regenerates MANIFEST.json from the table below (kept in one place so it stays valid)."""
import json, os
ROOT = os.path.dirname(os.path.dirname(os.path.abspath(__file__)))
MC = "model_checking"
EX = "exploration"
# id: (category, technique, level text, level note, design ref)
CHECKS = {
 "C18": (EX, "bounded exhaustive enumeration of (normalizer class x parameter alphabet x data grid) and of the full pipeline product, each case judged against closed-form reference model (mpmath)",
         "Every element of a finite product space built around each branch boundary of the code (lambda special values and their isclose zones, both signs, range ends, NaN, scalar/list/2-D inputs; Field/SRF/Krige/CondSRF x mesh x mean x trend x normalizer) is executed and compared with formulas written from the documentation; nothing sampled.",
         "real arguments are represented by grids; defects strictly between grid points and away from branch boundaries are outside the bound; mpmath and the docstring formulas are trusted", "5/C18"),
 "C14": (MC, "explicit-state breadth-first search over setter-operation histories on real CovModel objects; every reached state compared with a reference state machine (documented update rules + documented bounds) and with a freshly constructed model (differential oracle)",
         "All sequences of setter operations up to the depth bound (quick 2, thorough 3) from every (class x plain/temporal/latlon/latlon+temporal x dim) start state are executed on the real objects; states are de-duplicated by the canonical reference state; each history is replayed from a fresh object, so every trace is validated against the implementation.",
         "operation alphabet and depth bound as listed in the evidence file; legality = documented default bounds or custom bounds; operations outside the alphabet are not explored", "5/C14"),
 "C11": (MC, "explicit-state breadth-first search over call / re-seed / in-place-edit histories on real SRF+generator objects with a freshly constructed generator as differential oracle; plus complete enumeration of subsets, permutations, batch splits and mesh types of a point set",
         "All histories up to depth 3 (thorough 4) over an alphabet of generating calls (identical and equal-but-distinct seed objects, kept seed, new/close/grid positions), in-place model edits and restorations, model re-assignment and generator setting changes are executed on RandMeth, IncomprRandMeth and Fourier generators; every history is replayed from scratch on the real objects (twice, for the two seed-identity classes) and compared with a fresh object. Locality is decided by enumerating all 31 subsets, 24 permutations and 30 splits per configuration.",
         "bounded depth and alphabet; nugget models judged by seed-object independence only; parameter changes below the library's isclose tolerance not in the alphabet", "5/C11"),
 "C17": (MC, "exhaustive product enumeration of Fourier-generator configurations with shift-by-period oracle, plus breadth-first search over period / mode_no / model update histories on the real generator",
         "Full product model x dim 1-3 x anisotropy x rotation x period x even mode counts x seeds, each checked at lattice and off-grid points for shifts of +-1, +-2 periods along every main axis (explicit rotation matrices from the documented convention), with a half-period negative control; BFS (depth 3/4) over update histories checks periodicity for the current settings and equality with a fresh generator after every call.",
         "periodicity judged to 1e-9 of the field amplitude; bounded depth and alphabet", "5/C17"),
 "C07": (MC, "explicit-state breadth-first search over generation / set_pos / set_condition / model-refresh histories on real CondSRF(Krige) objects; reference state dict + freshly built objects as differential oracle; conditioning formula re-computed from an independent unconditional SRF",
         "All histories up to depth 3 (thorough 4) over 19-20 operations (calls with new / kept / close / caller-mutated / structured positions and new / kept seeds, set_pos, set_condition with new values or positions, in-place model change + documented refresh, model / mean / trend / normalizer re-assignment, direct kriging call) on Simple, Ordinary, Universal and Detrended conditioning; after each generating call the stored kriging parts, raw field and (nugget-free) full field are compared with freshly built objects, the data are checked at the conditioning points and the far field under simple kriging. A product enumeration on fresh objects pins the formula including its nugget part.",
         "zero measurement error configurations; kriging correctness itself is C05/C06; bounded depth and alphabet", "5/C07"),
 "C20": (MC, "exhaustive enumeration of (public entry point x option combination x array layout) with before/after snapshots of every array argument, plus breadth-first search over store / transform / call histories on Field, SRF, Krige and CondSRF objects with snapshots of all earlier results",
         "Every enumerated call is executed with C-contiguous float64 arrays already in target shape (the layout that lets np.asarray alias), Fortran-ordered and read-only arrays (a write then raises); all argument roles are compared bit-wise after the call. The history search executes every sequence (depth 2, thorough 3) of call(store, post_process) / transform(method, source, target, process, keep_mean) / delete and checks that every array returned earlier and every stored field other than the named target is bit-identical.",
         "entry points and options as enumerated in the evidence; vtk export / plotting not explored", "5/C20"),
 "C03": (EX, "bounded exhaustive enumeration of (class x dim x optional-argument grid x var/len_scale/nugget/rescale x lag alphabet) against mpmath closed forms written from the docstrings; identities between all public model functions; user subclasses via each defining function",
         "Full product over 17 classes, dims 1-3, optional arguments incl. both (dimension dependent) bounds, parameter sets and a lag alphabet placed at every branch boundary of the code (zero lag and its isclose zone, support edge +-1e-12, Matern nu>20 switch, exponential-integral x>30 branch, far tail); integral scales by independent quadrature; axis / spatial / Yadrenko variants via explicit rotation matrices and the chordal formula.",
         "lags and parameters are grids; mpmath and the docstring formulas are trusted; rtol 1e-8 for special functions", "5/C03"),
 "C12": (EX, "bounded exhaustive enumeration of (dim 1-4 x angle tuples x anisotropy ratios) against explicit rotation / stretching matrices written from the documented conventions; pipeline equivalence anisotropic-at-x vs isotropic-at-Tx",
         "All angle tuples over an alphabet containing every multiple of pi/2 and generic values (all 3-tuples in 3-D, all tuples with at most 3 non-zero of 6 angles in 4-D) x all anisotropy tuples from {1, .5, .1, 3}; rotation matrices, inverses, main axes, model transforms and length scales along rotated axes are compared with the documented Givens recipe; SRF, Fourier SRF, kriging and CondSRF with the rotated anisotropic model at x are compared with the isotropic model at the oracle-transformed positions.",
         "finite angle / ratio alphabets; the documented conventions (tutorials) are the reference", "5/C12"),
 "C05": (EX, "small-scope exhaustive enumeration of kriging set-ups (variant x model x coordinate configuration x all k-subsets of a point pool x option product) against an independent dense solution of the documented kriging system",
         "Every enumerated kriging system (8 variants incl. custom/quadratic/external drifts and drift without unbiasedness; dim 1-3, 2D+time, lat-lon, lat-lon+time; isotropic and anisotropic/rotated; exact x measurement-error kinds x pseudo-inverse types) is solved by the library and by numpy.linalg on a system assembled from the definition with oracle covariances and oracle coordinate transforms; weights (unit data vectors), constants, drift reproduction, chunk sizes, mesh types, all permutations of up to 4 data / 4 targets, mean / trend / normalizer pipelines, get_mean and only_mean are compared.",
         "conditioning sets of at most 5 points; cond(K) > 1e10 skipped (counted); tolerance scaled by cond(K)", "5/C05"),
 "C06": (EX, "small-scope exhaustive enumeration of the C05 kriging space restricted to zero measurement error, evaluated at the conditioning locations, plus every way of duplicating one or two conditioning points of every layout",
         "For every enumerated set-up (variants x models x coordinate configurations x layouts x nugget-free / exact mode x mean-trend-normalizer x pseudo-inverse type) the field and variance at the conditioning points, the sign of the unclipped reference variance, the simple-kriging bound by the sill and the equality with the clipped reference variance are checked; duplicated layouts (all single and pair duplications with different values, pinv and pinvh) are compared with the de-duplicated layout carrying the mean value.",
         "conditioning sets of at most 5 (+2 duplicated) points; singular de-duplicated systems skipped by a counted guard; duplicates only for nugget-free systems (with a nugget the system is regular and coincident points are separate noisy measurements)", "5/C06"),
 "C08": (EX, "small-scope exhaustive enumeration of point multisets, field assignments (incl. NaN), bin-edge subsets, direction sets / tolerances / bandwidths and grid masks against an O(n^2) pair-enumeration oracle; counts compared exactly",
         "All multisets of up to 4 points of a small lattice (duplicates, collinear, equal distances; ordered tuples for the smallest sizes), every value assignment from {0,1,3.5,NaN}, every increasing edge subset of an alphabet whose members coincide with pair distances (half-open bin semantics decided on exact hits), both estimators; lat-lon sets with poles, date line and antipodes against the atan2 great-circle formula; all direction sets of size 1-3 incl. an obtuse pair x 4 tolerances x 3 bandwidths, overlapping and separated search, kernel level and through vario_estimate; every small grid x mask pattern x missing-value encoding for the along-axis estimator.",
         "points on small lattices, at most 4 (5) points; cases inside the 1e-9 guard band of a decision boundary skipped (counted)", "5/C08"),
 "C09": (EX, "metamorphic relations over complete small spaces through vario_estimate: all permutations, all lattice symmetries, generic rigid motions, field offsets / factors, every removal of <= 2 points vs every missing-value encoding, structured vs unstructured, seeded sub-sampling vs the reproducible subset, co-rotated directions, unit conversion on the sphere, standard bins, preprocessing",
         "Every relation is executed on all point multisets (n <= 5) of a small lattice or all small grids, with all n! permutations and all 2^d d! lattice symmetries in exact arithmetic (counts identical), so no reference value is needed; missing-value handling is compared against physically removed points for every subset of <= 2 points and every pair of per-field missing positions; lat-lon binning is compared across units and against the great-circle oracle.",
         "small point sets; generic rotations are three per seed with bin edges outside the guard band", "5/C09"),
 "C13": (EX, "bounded exhaustive enumeration over a lat-lon alphabet (poles, date line, antipodes, out-of-range longitudes) x geo_scale x temporal / time anisotropy against spherical trigonometry; covariance read back from kriging and SRF; rotation group of the cube on the sphere; space-time decoupling",
         "All points and all pairs of the alphabet are pushed through the sphere embedding and its inverse, the chordal / great-circle maps, a one-point simple kriging and the SRF mode sum (covariance actually used == Yadrenko covariance of the atan2 great-circle distance), fitting at great-circle lags, standard bins in every unit; kriging and the estimator are repeated under the 24 cube rotations and generic rotations of the sphere; spatio-temporal models are checked for every angle-vector length (zeroed space-time angles), metric space-time kriging against the dense oracle and the SRF structure.",
         "finite lat-lon / scale / anisotropy alphabets; universal kriging excluded from rotation invariance (drifts are functions of lat, lon)", "5/C13"),
 "C10": (EX, "exhaustive enumeration of the parameter-selection space of fit_variogram (every vector in {fitted, deselected, fixed}^k x sill mode) plus option products, on noise-free data from the reference closed forms, with constraint invariants and identifiability-gated recovery",
         "For 9 model classes (quick) every selection vector over var / len_scale / nugget / optional arguments, three sill modes, dims 1-3 and lat-lon is fitted from a near-truth start; checked: deselected and fixed parameters untouched (incl. TPL variance), fitted values in bounds, prescribed sill met to 1e-12, returned dictionary == model state, second call a fixed point, r2 -> 1 and (where the Jacobian at the truth is well conditioned) recovery of the generating parameters; option product weights x init_guess x method x loss x custom bounds; directional data with anisotropy fitted / deselected / fixed; error paths leave the model unchanged.",
         "noise-free data, near-truth start; recovery only demanded for cond(J) < 1e6; requests without a free parameter skipped (counted)", "5/C10"),
 "C19": (EX, "exhaustive enumeration of (transformation x input moments x target parameters x process / keep_mean x source / store names) on a complete probability grid; the distributional claim decided by the deterministic quantile identity T(mu + sigma z_p) = F_target^-1(p)",
         "Every array transformation and every Field.transform wrapper is evaluated on the normal quantiles of all p in {1e-6, k/1000, 1-1e-6} for three (mu, sigma^2) plus a seed-selected one and compared with the closed-form target quantiles (log-normal, uniform, arcsine, U-quadratic incl. default bounds preserving mean and variance, Zinn-Harvey on |z| quantiles, force-moments on several arrays, Box-Cox round trip); discrete / binary transforms are fed every threshold, its floating-point neighbours and +-1e-9; wrappers are compared with array function o pre/post-processing for every flag and name combination.",
         "probability grid of 1001 points; exact threshold hits for 'equal' thresholds are in the guard band (computed by the library)", "5/C19"),
 "C16": (EX, "bounded exhaustive enumeration of (model class x dim x mode number x seed x mean velocity); per execution the mode amplitudes are solved from the public output and checked against the solenoidal condition and the documented projector; direction law over a complete seed window",
         "For every enumerated configuration the vector field is decomposed into its known finite set of plane waves by an exactly determined linear solve on the public output: k_j . A_j = k_j . B_j = 0 for all modes is equivalent to zero divergence at every point (not only at sampled points), the constant term is the mean velocity, the amplitudes equal the projector identity, and the per-seed component variances follow exactly; a finite-difference divergence below its truncation bound is checked through the API alone. The variance proportions (3/8, 1/8) / (8/15, 1/15, 1/15) are decided on the pooled directions of a complete seed window with a 6-sigma region.",
         "mode numbers <= 8 for the amplitude solve; the direction law is the one statistical acceptance region (finite seed window)", "5/C16"),
}
PENDING = {}
def main():
    props = [json.loads(l) for l in open(os.path.join(ROOT, "properties.jsonl"))]
    checks = []
    na = []
    for p in props:
        pid = p["id"]
        if pid in CHECKS:
            cat, tech, text, note, ref = CHECKS[pid]
            checks.append({
                "property_id": pid,
                "quick_cmd": f"./check {pid} --tier quick",
                "thorough_cmd": f"./check {pid} --tier thorough",
                "evidence_file": f"/verif/evidence/{pid}.json",
                "replay_cmd_template": "./check replay {path}",
                "engine": "gsverif",
                "level_claimed": {"category": cat, "text": text, "design_ref": f"DESIGN.md sec. {ref}"},
                "level_note": note,
                "technique": tech,
            })
        else:
            na.append({"property_id": pid, "reason": PENDING.get(pid, "check not built yet in this revision (planned, see DESIGN.md sec. 5); nothing is claimed for it")})
    man = {
        "version": 1,
        "setup_cmd": "./tools/setup.sh",
        "hooks": {"guard": "GSTOOLS_VERIF", "enable": "no hooks: all state is observed through public attributes and the documented sample arrays; checks import gstools from /repo/src (editable install), the .pyx kernels are interpreted from the current source", "baseline_off_cmd": "cd /repo && /venv/bin/python -m pytest -ra -q -p no:cacheprovider --timeout=900 --continue-on-collection-errors", "source_commits": [], "add_only": True},
        "engines": [{"name": "gsverif", "path": "/verif/gsverif", "serves_properties": sorted(CHECKS), "kind_free_text": "hand-written explicit-state / small-scope exhaustive explorer in Python: full product enumeration of finite input alphabets and breadth-first search over operation histories on the real objects, judged against independent reference models; process pool of 16"}],
        "checks": checks,
        "not_applicable": na,
        "notes": "exit 0 = held (KNOWN-FINDING lines possible), 1 = VIOLATION, 2 = undecided (vacuous run / harness problem; must not occur on the unchanged tree). VERIF_SEED selects the generic representatives inside the alphabets; enumeration over the chosen alphabet is always complete.",
    }
    with open(os.path.join(ROOT, "MANIFEST.json"), "w") as fh:
        json.dump(man, fh, indent=1)
    print("checks:", [c["property_id"] for c in checks], "n/a:", len(na))
if __name__ == "__main__":
    main()
