#!/venv/bin/python
import json, sys
pid = sys.argv[1]
wt = sys.argv[2] if len(sys.argv) > 2 else f"/tmp/wt/m_{pid}"
t = open('/verif/tools/agent_prompt.txt').read()
for l in open('/verif/properties.jsonl'):
    p = json.loads(l)
    if p['id'] == pid:
        print(t.replace('{WT}', wt).replace('{PID}', pid).replace('{TITLE}', p['title']).replace('{STATEMENT}', p['statement']).replace('{QUANT}', p['quantifier']['text']))
