#!/venv/bin/python
"""second-round prompt: same as mkprompt.py plus a list of already used mutation ideas to avoid"""
import json, sys, os, glob
pid = sys.argv[1]
wt = sys.argv[2] if len(sys.argv) > 2 else f"/tmp/wt/n_{pid}"
t = open('/verif/tools/agent_prompt.txt').read()
used = []
for d in sorted(glob.glob(f'/verif/seeded/{pid}-*')):
    try:
        m = json.load(open(os.path.join(d, 'meta.json')))
        diff = open(os.path.join(d, 'patch.diff')).read()
        files = sorted({l.split(' b/')[-1].strip() for l in diff.split('\n') if l.startswith('diff --git')})
        used.append(f"  - {os.path.basename(d)} (in {', '.join(files)}; manifests with: {m.get('needs_to_manifest','')})")
    except Exception:
        pass
for l in open('/verif/properties.jsonl'):
    p = json.loads(l)
    if p['id'] == pid:
        out = t.replace('{WT}', wt).replace('{PID}', pid).replace('{TITLE}', p['title']).replace('{STATEMENT}', p['statement']).replace('{QUANT}', p['quantifier']['text'])
        out += "\nThese ideas were already used by earlier rounds - produce DIFFERENT mutations (different function and a different kind of trigger; be creative: look at rarely used code paths, option combinations, multi-step histories, boundary values, second-order effects between two functions):\n" + "\n".join(used) + "\n"
        print(out)
