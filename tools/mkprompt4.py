#!/venv/bin/python
"""fourth-round prompt: as mkprompt2.py, plus a directive which source file each mutation has to be in
usage: mkprompt4.py <Cxx> <worktree> <fileA> <fileB>"""
import subprocess, sys
pid, wt, fa, fb = sys.argv[1:5]
base = subprocess.check_output(["/verif/tools/mkprompt2.py", pid, wt]).decode()
base += f"\nAdditional constraint for this round: mutation A must be a change inside `{fa}` and mutation B a change inside `{fb}` (these files were hardly touched by earlier rounds). If, after a serious attempt, no mutation inside the prescribed file can break the property while the existing tests still pass, say so in notes.md and choose the nearest file that the prescribed file calls into or is called from.\n"
print(base)
