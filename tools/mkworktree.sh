#!/bin/bash
# tools/mkworktree.sh <name>  -> scratch git worktree of /repo HEAD under /tmp/wt/<name> with the compiled kernels copied in
set -e
name="$1"; dir="/tmp/wt/$name"
mkdir -p /tmp/wt
git -C /repo worktree add --detach -f "$dir" HEAD >/dev/null 2>&1
for f in field/summator krige/krigesum variogram/estimator; do
  cp /repo/src/gstools/$f*.so "$dir/src/gstools/$(dirname $f)/"
  for e in c cpp; do [ -f /repo/src/gstools/$f.$e ] && cp /repo/src/gstools/$f.$e "$dir/src/gstools/$(dirname $f)/"; done
done
echo "$dir"
