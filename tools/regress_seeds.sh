#!/bin/bash
# tools/regress_seeds.sh [seed-dir-prefix ...]
# for every seeded change under /verif/seeded (or those whose name starts with a given prefix) run the checks
# named in its meta.json ("detected_by") against a scratch worktree carrying the change; prints one line per
# OWN_ONLY="C11 C14" restricts the named (expensive) checks to the seeds written for them.
# (seed, check): CAUGHT (exit 1 with VIOLATION lines) / MISSED (exit 0) / UNDECIDED (exit 2) / NOAPPLY
cd "$(dirname "$0")/.." || exit 2
for d in seeded/*/; do
  name=$(basename "$d")
  if [ $# -gt 0 ]; then ok=0; for p in "$@"; do case "$name" in $p*) ok=1;; esac; done; [ $ok = 1 ] || continue; fi
  ids=$(/venv/bin/python -c "import json,re,sys;m=json.load(open('$d/meta.json'));print(' '.join(sorted(set(re.findall(r'C\d\d', m.get('detected_by',''))))))")
  if grep -q neutralised_by "$d/meta.json"; then echo "$name: neutralised by a later fix (see meta.json), skipped"; continue; fi
  if echo "$name" | grep -q "pyx"; then echo "$name: .pyx demo (see DESIGN 10.5), skipped"; continue; fi
  for c in $ids; do
    case " $OWN_ONLY " in *" $c "*) case "$name" in $c*) ;; *) echo "$name $c skipped (OWN_ONLY)"; continue;; esac;; esac
    out=$(./tools/try_seed.sh "$d/patch.diff" $c 2>&1)
    if echo "$out" | grep -q "patch does not apply"; then echo "$name $c NOAPPLY"; continue; fi
    rc=$(echo "$out" | grep -o "exit=[0-9]*" | head -1 | cut -d= -f2)
    case "$rc" in 1) res=CAUGHT;; 0) res=MISSED;; *) res="UNDECIDED($rc)";; esac
    echo "$name $c $res | $(echo "$out" | tail -1 | grep -o '[0-9]* new failing comparisons')"
  done
done
