#!/venv/bin/python
"""tools/save_seed.py <worktree> <MUT_X> <seed-id> <property> <needs...> -- '<detected by...>'
copies patch.diff, demo.py, notes.md into /verif/seeded/<seed-id>/ and writes meta.json"""
import json, os, shutil, sys
wt, mut, sid, prop = sys.argv[1:5]
rest = sys.argv[5:]
sep = rest.index("--")
needs = " ".join(rest[:sep]); detected = " ".join(rest[sep+1:])
d = f"/verif/seeded/{sid}"; os.makedirs(d, exist_ok=True)
for f in ("patch.diff", "demo.py", "notes.md"):
    shutil.copy(os.path.join(mut if mut.startswith("/") else os.path.join(wt, mut), f), os.path.join(d, f))
conf = ""
import glob
for log in sorted(glob.glob("/tmp/wt/confirm*.log")):
    if os.path.exists(log):
        for l in open(log):
            if f"{wt} {mut}:" in l: conf = l.strip()
meta = {"property": prop, "breaks": prop, "needs_to_manifest": needs, "origin": "independent sub-agent given only the property text and a scratch worktree",
        "confirmed": {"how": "tools/confirm_seed.sh: patch applied in a scratch worktree, full pinned test suite run (pytest -n 6), demo.py run with and without the patch", "result": conf},
        "detected_by": detected, "how_run": "tools/try_seed.sh <patch> <check ids> (git -C /repo apply; ./check <id> --tier quick; git -C /repo checkout -- .)"}
json.dump(meta, open(os.path.join(d, "meta.json"), "w"), indent=1)
print("saved", d, "|", conf[-80:])
