#!/bin/bash
# offline setup: nothing to build; verify the environment the checks rely on
cd "$(dirname "$0")/.." || exit 1
unset PYTHONPATH
/venv/bin/python - <<'PY' || exit 1
import gstools, os, sys
assert os.path.realpath(gstools.__file__).startswith("/repo/src"), gstools.__file__
from gstools.field import summator
from gstools.krige import krigesum
from gstools.variogram import estimator
import mpmath, scipy, numpy
print("gstools from", gstools.__file__, "numpy", numpy.__version__, "scipy", scipy.__version__)
PY
chmod +x check
echo setup ok
