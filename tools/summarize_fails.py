#!/venv/bin/python
"""debug helper: run a check's groups in-process and summarise failure kinds (not part of registered commands)"""
import sys, json, collections, os
sys.path.insert(0, '/verif')
os.environ.setdefault("OMP_NUM_THREADS","1"); os.environ.setdefault("OPENBLAS_NUM_THREADS","1")
from gsverif import core, findings
import importlib
pid = sys.argv[1]; tier = sys.argv[2] if len(sys.argv)>2 else "quick"
keys = sys.argv[3].split(",") if len(sys.argv)>3 else ["what","opk","cls","field_is_target"]
mod = importlib.import_module(f"gsverif.props.{pid}")
chk = core.Check(pid, tier, int(os.environ.get("VERIF_SEED","0")), level=getattr(mod,"LEVEL","exploration"))
try:
    mod.run(chk)
except core.Vacuous as e:
    print("VACUOUS", e)
known = findings.load(pid)
cnt = collections.Counter(); ex = {}
for group, case, f in chk.violations:
    d = findings.descriptor(group, case, f)
    k = findings.match(known, d)
    sig = tuple((kk, json.dumps(d.get(kk))) for kk in keys) + (("known", k["id"] if k else None),)
    cnt[sig]+=1; ex.setdefault(sig,(case,f))
for sig,n in sorted(cnt.items(), key=lambda x:-x[1]):
    print(n, dict(sig))
    case,f = ex[sig]
    print("    e.g.", core.short(case,300), "| obs", f["observed"][:150], "| exp", f["expected"][:100], f["tol"][:60])
print("groups", {g:(s["cases"],s["executed"],s["skipped"]) for g,s in chk.groups.items()}, "states", chk.states, "transitions", chk.transitions)
