#!/bin/bash
# tools/sweep.sh <tier> <seeds...>   run every registered check (or those in $IDS) for the given VERIF_SEED values; print one line per run
tier="$1"; shift
cd "$(dirname "$0")/.." || exit 2
ids="$IDS"
[ -n "$ids" ] || ids=$(/venv/bin/python -c "import json;print(' '.join(c['property_id'] for c in json.load(open('MANIFEST.json'))['checks']))")
for s in "$@"; do
  for c in $ids; do
    t0=$(date +%s)
    out=$(VERIF_SEED=$s ./check $c --tier $tier 2>&1); rc=$?
    t1=$(date +%s)
    echo "seed=$s $c exit=$rc $((t1-t0))s viol=$(echo "$out" | grep -c '^VIOLATION') known=$(echo "$out" | grep -c '^KNOWN-FINDING') | $(echo "$out" | tail -1 | cut -c1-160)"
    if [ $rc -ne 0 ]; then echo "$out" | grep -A1 '^VIOLATION\|UNDECIDED\|Traceback' | head -12 | cut -c1-400; fi
  done
done
