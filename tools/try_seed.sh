#!/bin/bash
# tools/try_seed.sh <patch.diff> <check ids...>
# applies a seeded change to a scratch worktree of /repo HEAD (never to /repo itself), runs the checks (quick
# unless TIER is set) against that worktree through GSVERIF_REPO, removes the worktree.  Evidence of these runs goes to a
# scratch directory.
patch="$(readlink -f "$1")"; shift
root="$(cd "$(dirname "$0")/.." && pwd)"
name="try_$$"; wt="/tmp/wt/$name"
"$root/tools/mkworktree.sh" "$name" >/dev/null || exit 2
evdir=$(mktemp -d /tmp/evtry.XXXXXX)
trap 'git -C /repo worktree remove --force "$wt" 2>/dev/null; rm -rf "$evdir"' EXIT
( cd "$wt" && git apply "$patch" ) || { echo "patch does not apply"; exit 2; }
for c in "$@"; do
  out=$(cd "$root" && GSVERIF_REPO="$wt" GSVERIF_EVIDENCE_DIR="$evdir" ./check $c --tier ${TIER:-quick} 2>&1); rc=$?
  echo "== $c exit=$rc  $(echo "$out" | grep -c '^VIOLATION') violation lines"
  echo "$out" | grep -A1 '^VIOLATION' | head -${LINES_SHOWN:-6} | cut -c1-400
  echo "$out" | tail -1 | cut -c1-300
done
