#!/bin/bash
# tools/try_seed.sh <patch.diff> <check ids...>   apply a seeded change to /repo, run the checks (quick), revert
patch="$1"; shift
cd /repo || exit 2
if ! git diff --quiet; then echo "/repo not clean"; exit 2; fi
git apply "$patch" || { echo "patch does not apply"; exit 2; }
# evidence files are rewritten by every run: keep the ones of the unchanged tree
evbak=$(mktemp -d /tmp/evbak.XXXXXX); cp -a /verif/evidence/. "$evbak"/
trap 'git -C /repo checkout -- . ; cp -a "$evbak"/. /verif/evidence/; rm -rf "$evbak"' EXIT
for c in "$@"; do
  out=$(cd /verif && VERIF_TIER=${TIER:-quick} ./check $c --tier ${TIER:-quick} 2>&1); rc=$?
  echo "== $c exit=$rc  $(echo "$out" | grep -c '^VIOLATION') violation lines"
  echo "$out" | grep -A1 '^VIOLATION' | head -${LINES_SHOWN:-6} | cut -c1-400
  echo "$out" | tail -1 | cut -c1-300
done
